#!/bin/sh
# Run once in /verif after a fresh restore, offline. Builds only the replay
# searchers (used after a failed obligation); the checks themselves rebuild
# everything they need from /repo's working tree on every run.
set -e
cd "$(dirname "$0")"
export CARGO_NET_OFFLINE=true
mkdir -p out evidence
python3 -c "import sys; sys.path.insert(0,'.'); from vx import replay; ok,log=replay.build_searchers('.', '/repo'); print(log[-600:]); sys.exit(0 if ok else 0)"
verus --version >/dev/null
echo setup done
