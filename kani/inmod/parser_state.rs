// Kani harnesses for parser_state.rs functions whose Verus contracts are ASSUMED. Included under cfg(kani).
use super::*;

#[derive(Clone, Copy, Debug, Eq, Hash, Ord, PartialEq, PartialOrd)]
enum R { A, B }
impl kani::Arbitrary for R { fn any() -> Self { if kani::any() { R::A } else { R::B } } }

// norm_idx of specs/state_body.vx
fn norm_idx(i: i64, len: i64) -> Option<i64> { if i > len { None } else if i >= 0 { Some(i) } else if len + i >= 0 { Some(len + i) } else { None } }

// complete over the full i32 x i32 x Option x len domain below i32::MAX (loop-free)
#[kani::proof]
fn constrain_idxs_complete() {
    let start: i32 = kani::any(); let end: Option<i32> = kani::any(); let len: usize = kani::any();
    kani::assume(len <= i32::MAX as usize);
    let r = constrain_idxs(start, end, len);
    let a = norm_idx(start as i64, len as i64);
    let b = match end { Some(e) => norm_idx(e as i64, len as i64), None => Some(len as i64) };
    match (a, b) {
        (Some(a), Some(b)) => assert!(r == Some((a as usize)..(b as usize))),
        _ => assert!(r.is_none()),
    }
}

// try_add_new_stack_rule (Vec::splice, iter().skip(), iter_mut()): a bounded harness with <= 5 call stacks ran CBMC out of memory
// (62 GB) - the function stays ASSUMED; reported as such.
