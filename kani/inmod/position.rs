// Bounded Kani harnesses for the Position functions whose Verus contracts are ASSUMED (iterator-adaptor bodies).
// Included into pest/src/position.rs under cfg(kani) so that private functions are reachable. Bounded stand-ins:
// reported under `bounded_checks`, never counted as proved.
use super::*;

fn sym_str<const N: usize>(buf: &[u8; N]) -> Option<&str> {
    let len: usize = kani::any();
    kani::assume(len <= N);
    str::from_utf8(&buf[..len]).ok()
}
// byte-level line specs, as in specs/lines_body.vx (ls / le)
fn ls(b: &[u8], o: usize) -> usize { let mut i = o; while i > 0 { if b[i - 1] == b'\n' { return i; } i -= 1; } 0 }
fn le(b: &[u8], o: usize) -> usize { let mut i = o; while i < b.len() { if b[i] == b'\n' { return i + 1; } i += 1; } b.len() }
// lc_chars: 1 + newlines before the offset, 1 + characters since the last newline
fn lc(s: &str, o: usize) -> (usize, usize) {
    let mut line = 1; let mut col = 1;
    for c in s[..o].chars() { if c == '\n' { line += 1; col = 1; } else { col += 1; } }
    (line, col)
}

#[kani::proof]
#[kani::unwind(6)]
fn find_line_start_end_bounded_3() {
    let buf: [u8; 3] = kani::any();
    if let Some(s) = sym_str(&buf) {
        let pos: usize = kani::any();
        kani::assume(pos <= s.len() && s.is_char_boundary(pos));
        let p = Position::new_internal(s, pos);
        assert!(p.find_line_start() == ls(s.as_bytes(), pos));
        assert!(p.find_line_end() == le(s.as_bytes(), pos));
        let l = p.line_of();
        assert!(l.as_bytes() == &s.as_bytes()[ls(s.as_bytes(), pos)..le(s.as_bytes(), pos)]);
    }
}

#[kani::proof]
#[kani::unwind(6)]
fn position_line_col_bounded_3() {
    let buf: [u8; 3] = kani::any();
    if let Some(s) = sym_str(&buf) {
        let pos: usize = kani::any();
        kani::assume(pos <= s.len() && s.is_char_boundary(pos));
        let p = Position::new_internal(s, pos);
        assert!(p.line_col() == lc(s, pos));
    }
}

#[kani::proof]
#[kani::unwind(7)]
fn find_line_start_end_bounded_4() {
    let buf: [u8; 4] = kani::any();
    if let Some(s) = sym_str(&buf) {
        let pos: usize = kani::any();
        kani::assume(pos <= s.len() && s.is_char_boundary(pos));
        let p = Position::new_internal(s, pos);
        assert!(p.find_line_start() == ls(s.as_bytes(), pos));
        assert!(p.find_line_end() == le(s.as_bytes(), pos));
        let l = p.line_of();
        assert!(l.as_bytes() == &s.as_bytes()[ls(s.as_bytes(), pos)..le(s.as_bytes(), pos)]);
    }
}

#[kani::proof]
#[kani::unwind(7)]
fn position_line_col_bounded_4() {
    let buf: [u8; 4] = kani::any();
    if let Some(s) = sym_str(&buf) {
        let pos: usize = kani::any();
        kani::assume(pos <= s.len() && s.is_char_boundary(pos));
        let p = Position::new_internal(s, pos);
        assert!(p.line_col() == lc(s, pos));
    }
}
