// Bounded Kani harnesses for the Position functions whose Verus contracts are ASSUMED (iterator-adaptor bodies).
// Included into pest/src/position.rs under cfg(kani) so that private functions are reachable. Bounded stand-ins:
// reported under `bounded_checks`, never counted as proved.
use super::*;

fn sym_str<const N: usize>(buf: &[u8; N]) -> Option<&str> {
    let len: usize = kani::any();
    kani::assume(len <= N);
    str::from_utf8(&buf[..len]).ok()
}
// byte-level line specs, as in specs/lines_body.vx (ls / le)
fn ls(b: &[u8], o: usize) -> usize { let mut i = o; while i > 0 { if b[i - 1] == b'\n' { return i; } i -= 1; } 0 }
fn le(b: &[u8], o: usize) -> usize { let mut i = o; while i < b.len() { if b[i] == b'\n' { return i + 1; } i += 1; } b.len() }
// lc_chars: 1 + newlines before the offset, 1 + characters since the last newline
fn lc(s: &str, o: usize) -> (usize, usize) {
    let mut line = 1; let mut col = 1;
    for c in s[..o].chars() { if c == '\n' { line += 1; col = 1; } else { col += 1; } }
    (line, col)
}

#[kani::proof]
#[kani::unwind(6)]
fn find_line_start_end_bounded_3() {
    let buf: [u8; 3] = kani::any();
    if let Some(s) = sym_str(&buf) {
        let pos: usize = kani::any();
        kani::assume(pos <= s.len() && s.is_char_boundary(pos));
        let p = Position::new_internal(s, pos);
        assert!(p.find_line_start() == ls(s.as_bytes(), pos));
        assert!(p.find_line_end() == le(s.as_bytes(), pos));
        let l = p.line_of();
        assert!(l.as_bytes() == &s.as_bytes()[ls(s.as_bytes(), pos)..le(s.as_bytes(), pos)]);
    }
}

#[kani::proof]
#[kani::unwind(6)]
fn position_line_col_bounded_3() {
    let buf: [u8; 3] = kani::any();
    if let Some(s) = sym_str(&buf) {
        let pos: usize = kani::any();
        kani::assume(pos <= s.len() && s.is_char_boundary(pos));
        let p = Position::new_internal(s, pos);
        assert!(p.line_col() == lc(s, pos));
    }
}

#[kani::proof]
#[kani::unwind(7)]
fn find_line_start_end_bounded_4() {
    let buf: [u8; 4] = kani::any();
    if let Some(s) = sym_str(&buf) {
        let pos: usize = kani::any();
        kani::assume(pos <= s.len() && s.is_char_boundary(pos));
        let p = Position::new_internal(s, pos);
        assert!(p.find_line_start() == ls(s.as_bytes(), pos));
        assert!(p.find_line_end() == le(s.as_bytes(), pos));
        let l = p.line_of();
        assert!(l.as_bytes() == &s.as_bytes()[ls(s.as_bytes(), pos)..le(s.as_bytes(), pos)]);
    }
}

#[kani::proof]
#[kani::unwind(7)]
fn position_line_col_bounded_4() {
    let buf: [u8; 4] = kani::any();
    if let Some(s) = sym_str(&buf) {
        let pos: usize = kani::any();
        kani::assume(pos <= s.len() && s.is_char_boundary(pos));
        let p = Position::new_internal(s, pos);
        assert!(p.line_col() == lc(s, pos));
    }
}


// ---- variant: strings built from <= 3 characters of a mixed-width alphabet (valid by construction, no UTF-8 validation in the solver)
fn sym_chars(buf: &mut [u8; 9]) -> &str {
    let n: usize = kani::any();
    kani::assume(n <= 3);
    let mut len = 0usize;
    let mut i = 0;
    while i < n {
        let k: u8 = kani::any();
        kani::assume(k < 5);
        let c = match k { 0 => 'a', 1 => '\n', 2 => '\r', 3 => 'é', _ => '€' };
        len += c.encode_utf8(&mut buf[len..]).len();
        i += 1;
    }
    // SAFETY (harness only): the buffer prefix was filled by char::encode_utf8
    unsafe { str::from_utf8_unchecked(&buf[..len]) }
}
#[kani::proof]
#[kani::unwind(11)]
fn find_line_start_chars3() {
    let mut buf = [0u8; 9];
    let s = sym_chars(&mut buf);
    let pos: usize = kani::any();
    kani::assume(pos <= s.len() && s.is_char_boundary(pos));
    assert!(Position::new_internal(s, pos).find_line_start() == ls(s.as_bytes(), pos));
}
#[kani::proof]
#[kani::unwind(11)]
fn find_line_end_chars3() {
    let mut buf = [0u8; 9];
    let s = sym_chars(&mut buf);
    let pos: usize = kani::any();
    kani::assume(pos <= s.len() && s.is_char_boundary(pos));
    assert!(Position::new_internal(s, pos).find_line_end() == le(s.as_bytes(), pos));
}
#[kani::proof]
#[kani::unwind(11)]
fn line_col_chars3() {
    let mut buf = [0u8; 9];
    let s = sym_chars(&mut buf);
    let pos: usize = kani::any();
    kani::assume(pos <= s.len() && s.is_char_boundary(pos));
    assert!(Position::new_internal(s, pos).line_col() == lc(s, pos));
}
