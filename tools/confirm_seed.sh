#!/bin/bash
# confirm_seed.sh <worktree>: demo fails with the patch / passes without it; full suite with the patch = baseline (only surround::quote fails)
wt=$1; cd $wt || exit 2
git diff -- . ':!demo' > /tmp/confirm_$$.diff
if ! diff -q /tmp/confirm_$$.diff patch.diff >/dev/null; then echo "NOTE: worktree diff differs from patch.diff"; fi
rm -f /tmp/confirm_$$.diff
run_demo() { (cd demo && if grep -q '^\[\[test\]\]\|#\[test\]' -r src tests Cargo.toml 2>/dev/null && ! [ -f src/main.rs ]; then CARGO_TARGET_DIR=$wt/demo/target cargo test --offline; else CARGO_TARGET_DIR=$wt/demo/target cargo run --offline; fi) > $1 2>&1; echo $?; }
echo "demo with patch: exit $(run_demo $wt/confirm_demo_patched.log)"
# (no `git stash`: the stash is shared by all worktrees of a repository)
git apply -R patch.diff || { echo "cannot reverse patch.diff"; exit 2; }
echo "demo without patch: exit $(run_demo $wt/confirm_demo_clean.log)"
git apply patch.diff
CARGO_TARGET_DIR=$wt/target cargo test --workspace --offline --no-fail-fast > $wt/confirm_suite.log 2>&1
grep "^test result" $wt/confirm_suite.log | awk '{p+=$4; f+=$6} END {print "suite with patch: passed", p, "failed", f}'
grep "^test .*FAILED" $wt/confirm_suite.log
