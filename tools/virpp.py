#!/usr/bin/env python3
"""Pretty-print requires/ensures/body of functions from a Verus --log vir dump (crate.vir).
usage: virpp.py crate.vir name-substring..."""
import re, sys

def tokenize(s):
    return re.findall(r'"(?:[^"\\]|\\.)*"|\(|\)|[^\s()]+', s)

def parse(tokens, i=0):
    out = []
    while i < len(tokens):
        t = tokens[i]
        if t == '(':
            sub, i = parse(tokens, i + 1)
            out.append(sub)
        elif t == ')':
            return out, i + 1
        else:
            out.append(t); i += 1
    return out, i

def key(l, k):
    for i, x in enumerate(l):
        if x == k and i + 1 < len(l): return l[i + 1]
    return None

def path_of(fun):
    # (Fun :path a::b)
    if isinstance(fun, list) and fun and fun[0] == 'Fun': return key(fun, ':path')
    return str(fun)

def pp(e):
    if not isinstance(e, list): return str(e)
    if not e: return "()"
    h = e[0]
    if h in ('@', '@@'): return pp(e[2]) if len(e) > 2 else ""
    if h == '>':  # (> Kind ... typ)
        k = e[1]
        if k == 'Call':
            tgt = key(e, ':target'); args = key(e, ':args') or []
            name = "?"
            if isinstance(tgt, list):
                for x in tgt:
                    if isinstance(x, list) and x and x[0] == 'CallTargetKind':
                        r = key(x, ':resolved')
                        if r: name = path_of(r)
                if name == "?":
                    for x in tgt:
                        if isinstance(x, list) and x and x[0] == 'Fun': name = path_of(x); break
            name = name.split("::")[-1] if name.count("::") > 1 and not name.startswith("vstd::utf8") else name.replace("vstd::utf8::", "")
            return "%s(%s)" % (name, ", ".join(pp(a) for a in args))
        if k == 'Binary':
            op = e[2]; opn = op[1] if isinstance(op, list) and len(op) > 1 else str(op)
            if isinstance(opn, list): opn = " ".join(map(str, opn))
            if isinstance(op, list) and op[0] == 'BinaryOp' and len(op) > 2 and op[1] in ('Arith', 'Inequality', 'Bitwise'): opn = op[2] if not isinstance(op[2], list) else op[2][0]
            return "(%s %s %s)" % (pp(e[3]), opn, pp(e[4]))
        if k == 'Unary':
            op = e[2]; opn = op[1] if isinstance(op, list) and len(op) > 1 else str(op)
            if opn == 'Clip': return pp(e[3])
            return "%s(%s)" % (opn, pp(e[3]))
        if k == 'UnaryOpr':
            return "%s<%s>" % (pp(e[3]), " ".join(str(x) for x in (e[2] if isinstance(e[2], list) else [e[2]]) if not isinstance(x, list))[:40])
        if k == 'ReadPlace': return pp(e[2])
        if k in ('Var', 'VarLoc', 'VarAt'): return pp(e[2])
        if k == 'Const':
            c = e[2]
            return str(c[-1]) if isinstance(c, list) else str(c)
        if k == 'If': return "(if %s then %s else %s)" % (pp(e[2]), pp(e[3]), pp(e[4]) if len(e) > 4 else "")
        if k == 'Quant':
            return "(%s %s :: %s)" % (pp(e[2]), pp(e[3]), pp(e[4]))
        if k == 'Block':
            return "{ " + "; ".join([pp(x) for x in e[2]] + [pp(e[3]) if len(e) > 3 else ""]) + " }"
        return "%s[%s]" % (k, " ".join(pp(x) for x in e[2:]))
    if h == 'Place': return pp(e[2]) if e[1] == 'Local' else "place(%s)" % " ".join(pp(x) for x in e[1:])
    if h == 'VarIdent': return e[1].strip('"')
    if h == 'VarBinder': return pp(key(e, ':name'))
    if h == 'Quant': return e[1] if len(e) > 1 else 'quant'
    return "[" + " ".join(pp(x) for x in e) + "]"

def main():
    src = open(sys.argv[1]).read()
    # split into top-level forms cheaply: each starts with '(@ "' at line start
    forms = re.split(r'\n(?=\(@ ")', src)
    for pat in sys.argv[2:]:
        for f in forms:
            m = re.search(r':name \(Fun :path (\S+?)\)', f)
            if not m or pat not in m.group(1) or '(Function' not in f[:200]: continue
            tree, _ = parse(tokenize(f))
            fn = tree[0][2] if tree and isinstance(tree[0], list) and len(tree[0]) > 2 else None
            if not isinstance(fn, list): continue
            print("=== %s" % m.group(1))
            params = key(fn, ':params') or []
            print("  params:", ", ".join(pp(key(p[-1] if isinstance(p[-1], list) else p, ':name') or p) for p in params))
            for k in (':require', ':ensure', ':returns', ':body'):
                v = key(fn, k)
                if v in (None, 'None'): continue
                if k == ':ensure' and isinstance(v, list) and v and v[0] == 'tuple':
                    v = v[1] + v[2] if len(v) > 2 else v[1]
                if isinstance(v, list) and k != ':body' and k != ':returns':
                    for x in v: print("  %s %s" % (k[1:], pp(x)))
                else:
                    print("  %s %s" % (k[1:], pp(v)[:1500]))

if __name__ == "__main__":
    main()
