#!/usr/bin/env python3
"""Record the control skeleton (vx.weave.control_skeleton) of every function under contract on the CLEAN tree.
The proofs (loop invariants, anchored hints) were written for these control structures; `check` treats an unprovable
obligation in a function whose skeleton differs from the recorded one as "not a verdict" (the witness searchers decide).
Run on the unchanged tree only:  python3 tools/gen_skeletons.py"""
import json, os, subprocess, sys
sys.path.insert(0, "/verif")
from vx.weave import Weaver
REPO, ROOT = os.environ.get("VERIF_REPO", "/repo"), "/verif"
if subprocess.run(["git", "-C", REPO, "diff", "--quiet"]).returncode != 0:
    sys.exit("/repo has uncommitted changes - refusing")
out = {}
for unit, cfg in (("stack", {}), ("core", {}), ("core", {"feature.memchr": True}), ("pairs", {}), ("lines", {})):
    w = Weaver(REPO, os.path.join(ROOT, "specs", unit + ".vx"), cfg).run()
    key = unit + ("+memchr" if cfg else "")
    out[key] = {q: i.skeleton for q, i in sorted(w.fns.items())}
head = subprocess.run(["git", "-C", REPO, "log", "-1", "--format=%h"], capture_output=True, text=True).stdout.strip()
json.dump(dict(repo_head=head, skeletons=out), open(os.path.join(ROOT, "specs", "baseline_skeletons.json"), "w"), indent=1, sort_keys=True)
print({k: len(v) for k, v in out.items()})
