#!/bin/sh
# Re-run every quick check on the current (clean) tree and validate the evidence files. Run before committing evidence.
cd /verif || exit 1
if ! git -C /repo diff --quiet; then echo "/repo has uncommitted changes - refusing"; exit 1; fi
rc=0
for p in $(python3 -c "import sys; sys.path.insert(0,'.'); from vx.props import PROPS; print(' '.join(sorted(PROPS)))"); do
  ./check $p > out/last_$p.log 2>&1; c=$?
  tail -1 out/last_$p.log
  [ $c -ne 0 ] && rc=1
done
python3-vt - <<'PY' || rc=1
import json, jsonschema, glob, sys
sch = json.load(open('/root/.vp/EVIDENCE.schema.json'))
bad = 0
for f in sorted(glob.glob('/verif/evidence/*.json')):
    e = json.load(open(f))
    jsonschema.validate(e, sch)
    c = e['coverage']
    if c['obligations'] != c['discharged'] or c['obligations'] < 1 or e.get('violations'):
        print('BAD', f, c['obligations'], c['discharged'], e.get('violations')); bad = 1
print('evidence files valid' if not bad else 'EVIDENCE PROBLEM')
sys.exit(bad)
PY
exit $rc
