#!/bin/bash
# Re-run the check of every seeded change against the current machinery: each must be reported as a VIOLATION (exit 1).
# Optional argument: an extended regular expression selecting seed ids (e.g. 'C10|C03').
# Uses /repo's working tree (apply, check, undo) - do not run anything else against /repo meanwhile.
cd /verif || exit 2
if ! git -C /repo diff --quiet; then echo "/repo has uncommitted changes - refusing"; exit 2; fi
out=out/seed_regress.log; : > $out
rc=0
for d in seeded/C*/; do
  id=$(basename $d)
  if [ -n "$1" ] && ! echo "$id" | grep -Eq "$1"; then continue; fi
  prop=$(python3 -c "import json,sys; print(json.load(open('$d/meta.json'))['breaks_property'])")
  if ! git -C /repo apply --check /verif/$d/patch.diff 2>/dev/null; then echo "$id $prop PATCH-DOES-NOT-APPLY" | tee -a $out; continue; fi
  git -C /repo apply /verif/$d/patch.diff
  ./check $prop > out/seed_$id.log 2>&1; c=$?
  git -C /repo checkout -- .
  v=$(grep -c "^VIOLATION property=$prop" out/seed_$id.log)
  how=$(grep "^FAILED-OBLIGATION\|^UNDECIDED" out/seed_$id.log | head -1 | cut -c1-150)
  nf=$(grep -c "no-failing-input-found" out/seed_$id.log)
  echo "$id $prop exit=$c violation=$v no_input=$nf :: $how" | tee -a $out
  [ $c -ne 1 ] && rc=1
done
exit $rc
