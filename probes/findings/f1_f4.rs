// Scratch program (design round) reproducing predicted findings F1-F4 on the real crate.
// Cargo.toml: [dependencies] pest = { path = "/repo/pest" }
use pest::{state, ParserState, ParseResult, iterators::{Pairs, PairsBuilder}};
use std::num::NonZeroUsize;

#[allow(non_camel_case_types)]
#[derive(Clone, Copy, Debug, Eq, Hash, Ord, PartialEq, PartialOrd)]
enum Rule { a, b }

type S<'i> = Box<ParserState<'i, Rule>>;

fn main() {
    // F1: Pairs::single
    let pairs = PairsBuilder::new("xyz").rule_with(Rule::a, 0, 3, |i| i.rule(Rule::b, 0, 1)).build();
    let pair = pairs.clone().next().unwrap();
    let single = Pairs::single(pair.clone());
    println!("single.as_str = {:?} (pair.as_str = {:?}) len={}", single.as_str(), pair.as_str(), single.len());
    let mut s2 = single.clone();
    let back = s2.next_back();
    println!("single.next_back = {:?}", back.map(|p| (p.as_rule(), p.as_str().to_string())));
    println!("single.tokens.count = {} (pair.tokens.count = {})", single.clone().tokens().count(), pair.clone().tokens().count());
    let leaf = PairsBuilder::new("xyz").rule(Rule::a, 0, 3).build().next().unwrap();
    let r = std::panic::catch_unwind(|| { let mut s = Pairs::single(leaf); s.next_back().map(|p| p.as_str().to_string()) });
    println!("single(leaf).next_back = {:?}", r.is_err().then_some("PANIC"));

    // F2: tag_node leaks out of failed sequence
    let res = state::<Rule, _>("xq", |s: S| {
        s.rule(Rule::a, |s| s.match_string("x")).and_then(|s| {
            s.optional(|s| s.sequence(|s| s.tag_node("t").and_then(|s| s.match_string("nope"))))
        })
    }).unwrap();
    for p in res { println!("F2 pair {:?} tag={:?}", p.as_rule(), p.as_node_tag()); }

    // F3: skip_until with ["a","b",""] memchr vs basic semantics
    let res = state::<Rule, _>("xxab", |s: S| s.skip_until(&["a", "b", ""]).and_then(|s| s.rule(Rule::a, |s| s.skip(1))));
    for p in res.unwrap() { println!("F3 pos after skip_until = {}", p.as_span().start()); }
    let res = state::<Rule, _>("xxab", |s: S| s.skip_until(&["a", "b", "", "zz"]).and_then(|s| s.rule(Rule::a, |s| s.skip(1))));
    for p in res.unwrap() { println!("F3' (basic path, 4 strings) pos = {}", p.as_span().start()); }

    // F4: call limit absorbed
    fn prog(s: S) -> ParseResult<S> {
        s.rule(Rule::a, |s| s.optional(|s| s.sequence(|s| s.rule(Rule::b, |s| s.match_string("x")))))
    }
    pest::set_call_limit(None);
    let r0 = state::<Rule, _>("x", prog).map(|p| format!("{:#}", p));
    println!("F4 nolimit: {:?}", r0);
    for l in 1..6 {
        pest::set_call_limit(NonZeroUsize::new(l));
        let r = state::<Rule, _>("x", prog).map(|p| format!("{:#}", p)).map_err(|e| format!("{:?}", e.variant));
        println!("F4 limit {}: {:?}", l, r);
    }
    pest::set_call_limit(None);
}

/* Output on the unchanged tree (2026-09-25):
single.as_str = "x" (pair.as_str = "xyz") len=1
single.next_back = Some((b, "x"))
single.tokens.count = 3 (pair.tokens.count = 4)
single(leaf).next_back = Some("PANIC")
F2 pair a tag=Some("t")
F3 pos after skip_until = 2
F3' (basic path, 4 strings) pos = 0
F4 nolimit: Ok("[a(0, 1, [b(0, 1)])]")
F4 limit 1: Err("CustomError { message: \"call limit reached\" }")
F4 limit 2: Ok("[a(0, 0)]")
F4 limit 3: Ok("[a(0, 0)]")
F4 limit 4: Ok("[a(0, 1, [b(0, 1)])]")
F4 limit 5: Ok("[a(0, 1, [b(0, 1)])]")
*/
