use pest::iterators::PairsBuilder;
#[allow(non_camel_case_types)]
#[derive(Clone, Copy, Debug, Eq, Hash, Ord, PartialEq, PartialOrd)]
enum Rule { a, b }
fn main() {
    let pairs = PairsBuilder::new("xyz").rule_with(Rule::a, 0, 3, |i| i.rule(Rule::b, 0, 1)).build();
    let mut flat = pairs.clone().flatten();
    println!("F5 flat.len initially = {}", flat.len());
    let b = flat.next_back().unwrap();
    println!("F5 next_back -> {:?}; flat.len now = {} size_hint={:?}", b.as_rule(), flat.len(), flat.size_hint());
    let rest: Vec<_> = flat.map(|p| p.as_rule()).collect();
    println!("F5 remaining actually yielded = {:?}", rest);

    let empty = PairsBuilder::<Rule>::new("").build();
    let r = std::panic::catch_unwind(|| empty.to_json());
    println!("F6 empty.to_json panics = {}", r.is_err());
    let leaf = PairsBuilder::new("xyz").rule(Rule::a, 0, 3).build().next().unwrap().into_inner();
    let r = std::panic::catch_unwind(|| leaf.to_json());
    println!("F6 inner-empty.to_json = {:?}", r.map(|s| s.replace('\n', " ")));
}
