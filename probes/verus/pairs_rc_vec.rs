use vstd::prelude::*;
use std::rc::Rc;
verus! {

pub enum QueueableToken<'i, R> {
    Start { end_token_index: usize, input_pos: usize },
    End { start_token_index: usize, rule: R, tag: Option<&'i str>, input_pos: usize },
}
pub struct LineIndex { pub line_offsets: Vec<usize> }

pub struct Pairs<'i, R> {
    pub queue: Rc<Vec<QueueableToken<'i, R>>>,
    pub input: &'i str,
    pub start: usize,
    pub end: usize,
    pub pairs_count: usize,
    pub line_index: Rc<LineIndex>,
}
pub struct Pair<'i, R> {
    pub queue: Rc<Vec<QueueableToken<'i, R>>>,
    pub input: &'i str,
    pub start: usize,
    pub line_index: Rc<LineIndex>,
}

pub fn new_pair<'i, R: Copy>(
    queue: Rc<Vec<QueueableToken<'i, R>>>,
    input: &'i str,
    line_index: Rc<LineIndex>,
    start: usize,
) -> Pair<'i, R> {
    Pair {
        queue,
        input,
        start,
        line_index,
    }
}

#[verifier::exec_allows_no_decreases_clause]
pub fn new<'i, R: Copy>(
    queue: Rc<Vec<QueueableToken<'i, R>>>,
    input: &'i str,
    line_index: Rc<LineIndex>,
    start: usize,
    end: usize,
) -> Pairs<'i, R> {
    let mut pairs_count = 0;
    let mut cursor = start;
    while cursor < end {
        cursor = match queue[cursor] {
            QueueableToken::Start {
                end_token_index, ..
            } => end_token_index,
            _ => unreachable!(),
        } + 1;
        pairs_count += 1;
    }

    Pairs {
        queue,
        input,
        start,
        end,
        pairs_count,
        line_index,
    }
}

impl<'i, R: Copy> Pairs<'i, R> {
    pub fn peek(&self) -> Option<Pair<'i, R>> {
        if self.start < self.end {
            Some(new_pair(
                Rc::clone(&self.queue),
                self.input,
                Rc::clone(&self.line_index),
                self.start,
            ))
        } else {
            None
        }
    }
    fn pair(&self) -> usize {
        match self.queue[self.start] {
            QueueableToken::Start {
                end_token_index, ..
            } => end_token_index,
            _ => unreachable!(),
        }
    }
    fn pos(&self, index: usize) -> usize {
        match self.queue[index] {
            QueueableToken::Start { input_pos, .. } | QueueableToken::End { input_pos, .. } => {
                input_pos
            }
        }
    }
    fn next(&mut self) -> Option<Pair<'i, R>> {
        let pair = self.peek()?;

        self.start = self.pair() + 1;
        self.pairs_count -= 1;
        Some(pair)
    }
}

} // verus!
fn main() {}
