use vstd::prelude::*;
verus! {

// --- Stack abstract interface (contracts as proved in stack_c11_prototype.rs, bodies elided here) ---
pub struct Stack<T> { pub cache: Vec<T>, pub popped: Vec<T>, pub lengths: Vec<(usize, usize)> }
impl<T> Stack<T> {
    pub uninterp spec fn wf(&self) -> bool;
    pub uninterp spec fn elems(&self) -> Seq<T>;
    pub uninterp spec fn saved(&self) -> Seq<Seq<T>>;   // all saved copies, oldest first
    #[verifier::external_body]
    pub fn snapshot(&mut self)
        requires old(self).wf()
        ensures final(self).wf(), final(self).elems() == old(self).elems(), final(self).saved() == old(self).saved().push(old(self).elems())
    { unimplemented!() }
    #[verifier::external_body]
    pub fn clear_snapshot(&mut self)
        requires old(self).wf()
        ensures final(self).wf(), final(self).elems() == old(self).elems(),
            final(self).saved() == (if old(self).saved().len() > 0 { old(self).saved().drop_last() } else { old(self).saved() })
    { unimplemented!() }
    #[verifier::external_body]
    pub fn restore(&mut self)
        requires old(self).wf()
        ensures final(self).wf(),
            old(self).saved().len() > 0 ==> final(self).elems() == old(self).saved().last() && final(self).saved() == old(self).saved().drop_last(),
            old(self).saved().len() == 0 ==> final(self).elems() == Seq::<T>::empty() && final(self).saved() == old(self).saved(),
    { unimplemented!() }
}

#[derive(Clone, Copy, PartialEq, Eq)]
pub enum Lookahead { Positive, Negative, None }

pub struct Position<'i> { pub input: &'i str, pub pos: usize }
impl<'i> Clone for Position<'i> { fn clone(&self) -> Self { Position { input: self.input, pos: self.pos } } }
impl<'i> Copy for Position<'i> {}

pub enum QueueableToken<'i, R> {
    Start { end_token_index: usize, input_pos: usize },
    End { start_token_index: usize, rule: R, tag: Option<&'i str>, input_pos: usize },
}
pub type ParseResult<S> = Result<S, S>;

pub struct ParserState<'i, R> {
    pub position: Position<'i>,
    pub queue: Vec<QueueableToken<'i, R>>,
    pub lookahead: Lookahead,
    pub stack: Stack<usize>,
    pub calls: Option<(usize, usize)>,
}

pub open spec fn st<'i, R>(r: ParseResult<Box<ParserState<'i, R>>>) -> Box<ParserState<'i, R>> {
    match r { Ok(s) => s, Err(s) => s }
}

// frame law every closure is assumed to obey and every op is proved to obey
pub open spec fn frame<'i, R>(s: Box<ParserState<'i, R>>, r: ParseResult<Box<ParserState<'i, R>>>) -> bool {
    let n = st(r);
    &&& n.stack.wf()
    &&& n.stack.saved() =~= s.stack.saved()
    &&& n.lookahead == s.lookahead
    &&& n.position.input == s.position.input
    &&& n.queue@.len() >= s.queue@.len()
    &&& n.queue@.subrange(0, s.queue@.len() as int) =~= s.queue@
    &&& (s.lookahead != Lookahead::None ==> n.queue@ == s.queue@)
}
pub open spec fn lawful<'i, R, F: FnOnce(Box<ParserState<'i, R>>) -> ParseResult<Box<ParserState<'i, R>>>>(f: F) -> bool {
    &&& forall |s: Box<ParserState<'i, R>>| s.stack.wf() ==> #[trigger] f.requires((s,))
    &&& forall |s: Box<ParserState<'i, R>>, r: ParseResult<Box<ParserState<'i, R>>>| s.stack.wf() && #[trigger] f.ensures((s,), r) ==> frame(s, r)
}

impl<'i, R: Copy> ParserState<'i, R> {
    fn inc_call_check_limit(mut self: Box<Self>) -> (r: ParseResult<Box<Self>>)
        ensures r is Err ==> r->Err_0 == self,
            r is Ok ==> r->Ok_0.position == self.position && r->Ok_0.queue == self.queue && r->Ok_0.lookahead == self.lookahead && r->Ok_0.stack == self.stack
    {
        match self.calls {
            Some((c, l)) => { if c >= l { return Err(self); } self.calls = Some((c + 1, l)); }
            None => {}
        }
        Ok(self)
    }

    pub fn sequence<F>(mut self: Box<Self>, f: F) -> (r: ParseResult<Box<Self>>)
    where
        F: FnOnce(Box<Self>) -> ParseResult<Box<Self>>,
        requires self.stack.wf(), lawful(f)
        ensures frame(self, r),
            r is Err ==> r->Err_0.position == self.position && r->Err_0.queue@ == self.queue@ && r->Err_0.stack.elems() == self.stack.elems(),
    {
        self = self.inc_call_check_limit()?;
        let token_index = self.queue.len();
        let initial_pos = self.position;

        let result = f(self.checkpoint());

        match result {
            Ok(new_state) => Ok(new_state.checkpoint_ok()),
            Err(mut new_state) => {
                // Restore the initial position and truncate the token queue.
                new_state.position = initial_pos;
                new_state.queue.truncate(token_index);
                Err(new_state.restore())
            }
        }
    }

    pub fn lookahead<F>(mut self: Box<Self>, is_positive: bool, f: F) -> (r: ParseResult<Box<Self>>)
    where
        F: FnOnce(Box<Self>) -> ParseResult<Box<Self>>,
        requires self.stack.wf(), lawful(f)
        ensures frame(self, r),
            st(r).position == self.position && st(r).queue@ == self.queue@ && st(r).stack.elems() == self.stack.elems(),
    {
        self = self.inc_call_check_limit()?;
        let initial_lookahead = self.lookahead;

        self.lookahead = if is_positive {
            match initial_lookahead {
                Lookahead::None | Lookahead::Positive => Lookahead::Positive,
                Lookahead::Negative => Lookahead::Negative,
            }
        } else {
            match initial_lookahead {
                Lookahead::None | Lookahead::Positive => Lookahead::Negative,
                Lookahead::Negative => Lookahead::Positive,
            }
        };

        let initial_pos = self.position;

        let result = f(self.checkpoint());

        let result_state = match result {
            Ok(mut new_state) => {
                new_state.position = initial_pos;
                new_state.lookahead = initial_lookahead;
                Ok(new_state.restore())
            }
            Err(mut new_state) => {
                new_state.position = initial_pos;
                new_state.lookahead = initial_lookahead;
                Err(new_state.restore())
            }
        };

        if is_positive {
            result_state
        } else {
            match result_state {
                Ok(state) => Err(state),
                Err(state) => Ok(state),
            }
        }
    }

    pub fn checkpoint(mut self: Box<Self>) -> (r: Box<Self>)
        requires self.stack.wf()
        ensures r.stack.wf(), r.stack.elems() == self.stack.elems(), r.stack.saved() == self.stack.saved().push(self.stack.elems()),
            r.position == self.position, r.queue == self.queue, r.lookahead == self.lookahead, r.calls == self.calls
    {
        self.stack.snapshot();
        self
    }
    pub fn checkpoint_ok(mut self: Box<Self>) -> (r: Box<Self>)
        requires self.stack.wf()
        ensures r.stack.wf(), r.stack.elems() == self.stack.elems(),
            r.stack.saved() == (if self.stack.saved().len() > 0 { self.stack.saved().drop_last() } else { self.stack.saved() }),
            r.position == self.position, r.queue == self.queue, r.lookahead == self.lookahead, r.calls == self.calls
    {
        self.stack.clear_snapshot();
        self
    }
    pub fn restore(mut self: Box<Self>) -> (r: Box<Self>)
        requires self.stack.wf()
        ensures r.stack.wf(),
            self.stack.saved().len() > 0 ==> r.stack.elems() == self.stack.saved().last() && r.stack.saved() == self.stack.saved().drop_last(),
            r.position == self.position, r.queue == self.queue, r.lookahead == self.lookahead, r.calls == self.calls
    {
        self.stack.restore();
        self
    }
}

} // verus!
fn main() {}
