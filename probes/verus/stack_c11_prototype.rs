use vstd::prelude::*;
verus! {

// ---- trusted std helpers (call-site rewrites R1, R2) ----
#[verifier::external_body]
pub fn vx_drain_drop<T>(v: &mut Vec<T>, start: usize, end: usize)
    requires start <= end <= old(v)@.len()
    ensures final(v)@ == old(v)@.subrange(0, start as int) + old(v)@.subrange(end as int, old(v)@.len() as int)
{ drop(v.drain(start..end)); }

#[verifier::external_body]
pub fn vx_extend_rev_drain_from<T>(dst: &mut Vec<T>, src: &mut Vec<T>, new_len: usize)
    requires new_len <= old(src)@.len()
    ensures final(src)@ == old(src)@.subrange(0, new_len as int),
            final(dst)@ == old(dst)@ + old(src)@.subrange(new_len as int, old(src)@.len() as int).reverse()
{ let r = src.drain(new_len..); dst.extend(r.rev()); }

pub open spec fn clone_is_id<T: Clone>() -> bool {
    forall |a: &T, b: T| #[trigger] call_ensures(T::clone, (a,), b) ==> *a == b
}
pub struct Stack<T: Clone> {
    pub cache: Vec<T>,
    pub popped: Vec<T>,
    pub lengths: Vec<(usize, usize)>,
}

// prefix sum of popped-segment sizes
pub open spec fn off(l: Seq<(usize, usize)>, k: int) -> int
    decreases k
{
    if k <= 0 { 0 } else { off(l, k - 1) + (l[k - 1].0 - l[k - 1].1) }
}

// saved copy k (0-based), rebuilt from the concrete fields
pub open spec fn saved<T>(cache: Seq<T>, popped: Seq<T>, l: Seq<(usize, usize)>, k: int) -> Seq<T>
    decreases l.len() - k
{
    if k < 0 || k >= l.len() { cache } else {
        let nxt = saved(cache, popped, l, k + 1);
        nxt.subrange(0, l[k].1 as int) + popped.subrange(off(l, k), off(l, k + 1)).reverse()
    }
}

pub open spec fn wf_nums(cache_len: int, popped_len: int, l: Seq<(usize, usize)>) -> bool {
    &&& popped_len == off(l, l.len() as int)
    &&& forall |k: int| 0 <= k < l.len() ==> (#[trigger] l[k]).1 <= l[k].0
    &&& forall |k: int| 0 <= k < l.len() - 1 ==> (#[trigger] l[k]).1 <= l[k + 1].0
    &&& (l.len() > 0 ==> l[l.len() - 1].1 <= cache_len)
}

impl<T: Clone> Stack<T> {
    pub open spec fn wf(&self) -> bool { wf_nums(self.cache@.len() as int, self.popped@.len() as int, self.lengths@) }
    pub open spec fn elems(&self) -> Seq<T> { self.cache@ }
    pub open spec fn depth(&self) -> int { self.lengths@.len() as int }
    pub open spec fn saved(&self, k: int) -> Seq<T> { saved(self.cache@, self.popped@, self.lengths@, k) }


    pub fn pop(&mut self) -> (r: Option<T>)
        requires old(self).wf(),
            clone_is_id::<T>(),
        ensures final(self).wf(),
            final(self).depth() == old(self).depth(),
            old(self).elems().len() == 0 ==> r is None && final(self).elems() == old(self).elems(),
            old(self).elems().len() > 0 ==> r == Some(old(self).elems().last()) && final(self).elems() == old(self).elems().drop_last(),
            forall |k: int| 0 <= k < old(self).depth() ==> final(self).saved(k) == old(self).saved(k),
    {
        let len = self.cache.len();
        let popped = self.cache.pop();
        if let Some(popped) = &popped {
            if let Some((_, remained_count)) = self.lengths.last_mut() {
                // `len >= *unpopped_count`
                if len == *remained_count {
                    *remained_count -= 1;
                    self.popped.push(popped.clone());
                }
            }
        }
        proof {
            let l0 = old(self).lengths@; let l1 = self.lengths@; let n = l0.len() as int;
            if n > 0 && old(self).elems().len() > 0 {
                assert(forall |j: int| 0 <= j < n - 1 ==> l0[j] == l1[j]);
                lemma_off_prefix(l0, l1, n - 1);
                if len == l0[n-1].1 {
                    assert(l1[n-1].1 == l0[n-1].1 - 1);
                    assert(off(l1, n) == off(l0, n) + 1);
                    lemma_pop_saved(old(self).cache@, old(self).popped@, l0, self.cache@, self.popped@, l1, n);
                } else {
                    assert(l1 =~= l0);
                    lemma_cache_shrink(old(self).cache@, self.cache@, self.popped@, l0, n);
                }
            }
        }
        popped
    }


    pub fn new() -> (r: Self)
        ensures r.wf(), r.elems() == Seq::<T>::empty(), r.depth() == 0
    {
        Stack {
            cache: vec![],
            popped: vec![],
            lengths: vec![],
        }
    }

    pub fn is_empty(&self) -> (r: bool) ensures r == (self.elems().len() == 0)
    {
        self.cache.is_empty()
    }

    pub fn peek(&self) -> (r: Option<&T>)
        ensures self.elems().len() == 0 ==> r is None, self.elems().len() > 0 ==> r == Some(&self.elems().last())
    {
        self.cache.last()
    }

    pub fn push(&mut self, elem: T)
        requires old(self).wf()
        ensures final(self).wf(), final(self).elems() == old(self).elems().push(elem), final(self).depth() == old(self).depth(),
            forall |k: int| 0 <= k < old(self).depth() ==> final(self).saved(k) == old(self).saved(k),
    {
        self.cache.push(elem);
        proof {
            let n = self.depth();
            assert(old(self).cache@ =~= self.cache@.drop_last());
            if n > 0 { lemma_cache_grow(old(self).cache@, self.cache@, self.popped@, self.lengths@, n); }
        }
    }

    pub fn len(&self) -> (r: usize) ensures r == self.elems().len()
    {
        self.cache.len()
    }

    pub fn restore(&mut self)
        requires old(self).wf()
        ensures final(self).wf(),
            old(self).depth() == 0 ==> final(self).depth() == 0 && final(self).elems() == Seq::<T>::empty(),
            old(self).depth() > 0 ==> final(self).depth() == old(self).depth() - 1
                && final(self).elems() == old(self).saved(old(self).depth() - 1)
                && forall |k: int| 0 <= k < old(self).depth() - 1 ==> final(self).saved(k) == old(self).saved(k),
    {
        match self.lengths.pop() {
            Some((len_stack, remained)) => {
                proof {
                    let l0 = old(self).lengths@; let n = l0.len() as int;
                    lemma_off_mono(l0, n - 1, n);
                    lemma_off_prefix(l0, self.lengths@, n - 1);
                }
                if remained < self.cache.len() {
                    // Remove those elements that are pushed after the snapshot.
                    self.cache.truncate(remained);
                }
                if len_stack > remained {
                    let rewind_count = len_stack - remained;
                    let new_len = self.popped.len() - rewind_count;
                    vx_extend_rev_drain_from(&mut self.cache, &mut self.popped, new_len);
                    { let vx_a = self.popped.len(); let vx_b = new_len; assert(vx_a == vx_b); }
                }
                proof {
                    let l0 = old(self).lengths@; let l1 = self.lengths@; let n = l0.len() as int;
                    let c0 = old(self).cache@; let p0 = old(self).popped@;
                    assert(saved(c0, p0, l0, n) == c0);
                    assert(p0.subrange(off(l0, n - 1), off(l0, n)) =~= p0.subrange(off(l0, n - 1), p0.len() as int));
                    assert(self.cache@ =~= saved(c0, p0, l0, n - 1));
                    assert(self.popped@ =~= p0.subrange(0, off(l0, n - 1)));
                    assert forall |k: int| 0 <= k < n - 1 implies saved(self.cache@, self.popped@, l1, k) == saved(c0, p0, l0, k) by {
                        lemma_restore_below(c0, p0, l0, self.cache@, self.popped@, l1, n, k);
                    }
                }
            }
            None => {
                self.cache.clear();
                // As `self.popped` and `self.lengths` should already be empty,
                // there is no need to clear it.
                { let vx_da: bool = self.popped.is_empty(); assert(vx_da); }
                { let vx_da: bool = self.lengths.is_empty(); assert(vx_da); }
            }
        }
    }


    pub fn clear_snapshot(&mut self)
        requires old(self).wf()
        ensures final(self).wf(), final(self).elems() == old(self).elems(),
            old(self).depth() == 0 ==> final(self).depth() == 0,
            old(self).depth() > 0 ==> final(self).depth() == old(self).depth() - 1
                && forall |k: int| 0 <= k < old(self).depth() - 1 ==> final(self).saved(k) == old(self).saved(k),
    {
        if let Some((len, remained)) = self.lengths.pop() {
            let popped_count = len - remained;
            proof {
                let l0 = old(self).lengths@; let n = l0.len() as int;
                lemma_off_mono(l0, n - 1, n);
                if n > 1 { lemma_off_mono(l0, n - 2, n - 1); }
            }
            if let Some((_, parent_remained)) = self.lengths.last_mut() {
                let merged_remained = (*parent_remained).min(remained);
                let parent_popped = *parent_remained - merged_remained;
                *parent_remained = merged_remained;

                let popped_start = self.popped.len() - popped_count;
                vx_drain_drop(&mut self.popped, popped_start, popped_start + popped_count - parent_popped);
                proof {
                    let l0 = old(self).lengths@; let l1 = self.lengths@; let n = l0.len() as int;
                    lemma_clear(old(self).cache@, old(self).popped@, l0, self.popped@, l1, n);
                }
            } else {
                self.popped.truncate(self.popped.len() - popped_count);
            }
        }
    }

    pub fn snapshot(&mut self)
        requires old(self).wf()
        ensures final(self).wf(), final(self).elems() == old(self).elems(),
            final(self).depth() == old(self).depth() + 1,
            final(self).saved(old(self).depth()) == old(self).elems(),
            forall |k: int| 0 <= k < old(self).depth() ==> final(self).saved(k) == old(self).saved(k),
    {
        self.lengths.push((self.cache.len(), self.cache.len()));
        proof {
            let l0 = old(self).lengths@; let l1 = self.lengths@; let n = l0.len() as int;
            lemma_off_prefix(l0, l1, n);
            assert(off(l1, n + 1) == off(l1, n));
            assert(self.popped@.subrange(off(l1, n), off(l1, n + 1)) =~= Seq::<T>::empty());
            assert(saved(self.cache@, self.popped@, l1, n + 1) == self.cache@);
            assert(saved(self.cache@, self.popped@, l1, n) =~= self.cache@);
            lemma_saved_below(self.cache@, self.popped@, l0, l1, n);
        }
    }
}

// off only depends on the prefix
pub proof fn lemma_off_prefix(l0: Seq<(usize, usize)>, l1: Seq<(usize, usize)>, k: int)
    requires 0 <= k <= l0.len(), k <= l1.len(), forall |j: int| 0 <= j < k ==> l0[j] == l1[j]
    ensures off(l0, k) == off(l1, k)
    decreases k
{
    if k > 0 { lemma_off_prefix(l0, l1, k - 1); }
}

// after pushing (len,len): saved(k) for k<n unchanged, because saved_new(n) == cache == saved_old(n)
pub proof fn lemma_saved_below<T>(cache: Seq<T>, popped: Seq<T>, l0: Seq<(usize, usize)>, l1: Seq<(usize, usize)>, n: int)
    requires n == l0.len(), l1.len() == n + 1, forall |j: int| 0 <= j < n ==> l0[j] == l1[j],
        saved(cache, popped, l1, n) == cache,
    ensures forall |k: int| 0 <= k < n ==> saved(cache, popped, l1, k) == saved(cache, popped, l0, k)
{
    assert forall |k: int| 0 <= k < n implies saved(cache, popped, l1, k) == saved(cache, popped, l0, k) by {
        lemma_saved_below_k(cache, popped, l0, l1, n, k);
    }
}
pub proof fn lemma_saved_below_k<T>(cache: Seq<T>, popped: Seq<T>, l0: Seq<(usize, usize)>, l1: Seq<(usize, usize)>, n: int, k: int)
    requires n == l0.len(), l1.len() == n + 1, forall |j: int| 0 <= j < n ==> l0[j] == l1[j],
        saved(cache, popped, l1, n) == cache, 0 <= k <= n
    ensures saved(cache, popped, l1, k) == saved(cache, popped, l0, k)
    decreases n - k
{
    if k < n {
        lemma_saved_below_k(cache, popped, l0, l1, n, k + 1);
        lemma_off_prefix(l0, l1, k);
        lemma_off_prefix(l0, l1, k + 1);
    }
}


// popping above the snapshot line: cache shrinks but keeps its first rem_last elements
pub proof fn lemma_cache_shrink<T>(c0: Seq<T>, c1: Seq<T>, popped: Seq<T>, l: Seq<(usize, usize)>, n: int)
    requires n == l.len(), n > 0, c1 == c0.drop_last(), c0.len() > 0, l[n-1].1 <= c1.len(),
    ensures forall |k: int| 0 <= k < n ==> saved(c1, popped, l, k) == saved(c0, popped, l, k)
{
    assert(saved(c0, popped, l, n) == c0);
    assert(saved(c1, popped, l, n) == c1);
    assert(c1.subrange(0, l[n-1].1 as int) =~= c0.subrange(0, l[n-1].1 as int));
    assert(saved(c1, popped, l, n - 1) == saved(c0, popped, l, n - 1));
    assert forall |k: int| 0 <= k < n implies saved(c1, popped, l, k) == saved(c0, popped, l, k) by {
        lemma_same_above(c0, c1, popped, l, n, k);
    }
}
pub proof fn lemma_same_above<T>(c0: Seq<T>, c1: Seq<T>, popped: Seq<T>, l: Seq<(usize, usize)>, n: int, k: int)
    requires n == l.len(), n > 0, saved(c1, popped, l, n - 1) == saved(c0, popped, l, n - 1), 0 <= k < n
    ensures saved(c1, popped, l, k) == saved(c0, popped, l, k)
    decreases n - k
{
    if k < n - 1 { lemma_same_above(c0, c1, popped, l, n, k + 1); }
}
// popping an original element: it moves from cache to the end of popped, rem_last decreases
pub proof fn lemma_pop_saved<T>(c0: Seq<T>, p0: Seq<T>, l0: Seq<(usize, usize)>, c1: Seq<T>, p1: Seq<T>, l1: Seq<(usize, usize)>, n: int)
    requires n == l0.len(), n == l1.len(), n > 0, c0.len() > 0, c1 == c0.drop_last(), p1 == p0.push(c0.last()),
        c0.len() == l0[n-1].1, l1[n-1].0 == l0[n-1].0, l1[n-1].1 == l0[n-1].1 - 1, l0[n-1].1 <= l0[n-1].0,
        forall |j: int| 0 <= j < n - 1 ==> l0[j] == l1[j],
        p0.len() == off(l0, n), off(l1, n - 1) == off(l0, n - 1), off(l1, n) == off(l0, n) + 1,
        forall |j: int| 0 <= j < l0.len() ==> (#[trigger] l0[j]).1 <= l0[j].0,
    ensures forall |k: int| 0 <= k < n ==> saved(c1, p1, l1, k) == saved(c0, p0, l0, k)
{
    let a = off(l0, n - 1);
    lemma_off_mono(l0, n - 1, n);
    let seg0 = p0.subrange(a, off(l0, n));
    let seg1 = p1.subrange(a, off(l1, n));
    assert(seg1 =~= seg0.push(c0.last()));
    assert(seg1.reverse() =~= seq![c0.last()] + seg0.reverse());
    assert(c0.subrange(0, l0[n-1].1 as int) =~= c1.subrange(0, l1[n-1].1 as int) + seq![c0.last()]);
    assert(saved(c0, p0, l0, n) == c0);
    assert(saved(c1, p1, l1, n) == c1);
    assert(saved(c1, p1, l1, n - 1) =~= saved(c0, p0, l0, n - 1));
    assert forall |k: int| 0 <= k < n implies saved(c1, p1, l1, k) == saved(c0, p0, l0, k) by {
        lemma_pop_below(c0, p0, l0, c1, p1, l1, n, k);
    }
}
pub proof fn lemma_pop_below<T>(c0: Seq<T>, p0: Seq<T>, l0: Seq<(usize, usize)>, c1: Seq<T>, p1: Seq<T>, l1: Seq<(usize, usize)>, n: int, k: int)
    requires n == l0.len(), n == l1.len(), n > 0, p1 == p0.push(c0.last()) || p1 == p0,
        forall |j: int| 0 <= j < n - 1 ==> l0[j] == l1[j],
        p0.len() == off(l0, n), c0.len() > 0,
        forall |j: int| 0 <= j < l0.len() ==> (#[trigger] l0[j]).1 <= l0[j].0,
        saved(c1, p1, l1, n - 1) == saved(c0, p0, l0, n - 1), 0 <= k < n,
    ensures saved(c1, p1, l1, k) == saved(c0, p0, l0, k)
    decreases n - k
{
    if k < n - 1 {
        lemma_pop_below(c0, p0, l0, c1, p1, l1, n, k + 1);
        lemma_off_prefix(l0, l1, k);
        lemma_off_prefix(l0, l1, k + 1);
        lemma_off_mono(l0, k + 1, n);
        lemma_off_mono(l0, k, k + 1);
        assert(p1.subrange(off(l1, k), off(l1, k + 1)) =~= p0.subrange(off(l0, k), off(l0, k + 1)));
    }
}
pub proof fn lemma_off_mono(l: Seq<(usize, usize)>, a: int, b: int)
    requires 0 <= a <= b <= l.len(), forall |k: int| 0 <= k < l.len() ==> (#[trigger] l[k]).1 <= l[k].0
    ensures off(l, a) <= off(l, b), 0 <= off(l, a)
    decreases b
{
    if a < b { lemma_off_mono(l, a, b - 1); } else if a > 0 { lemma_off_mono(l, a - 1, a - 1); }
}


pub proof fn lemma_cache_grow<T>(c0: Seq<T>, c1: Seq<T>, popped: Seq<T>, l: Seq<(usize, usize)>, n: int)
    requires n == l.len(), n > 0, c0 == c1.drop_last(), c1.len() > 0, l[n-1].1 <= c0.len(),
    ensures forall |k: int| 0 <= k < n ==> saved(c1, popped, l, k) == saved(c0, popped, l, k)
{
    assert(saved(c0, popped, l, n) == c0);
    assert(saved(c1, popped, l, n) == c1);
    assert(c1.subrange(0, l[n-1].1 as int) =~= c0.subrange(0, l[n-1].1 as int));
    assert(saved(c1, popped, l, n - 1) == saved(c0, popped, l, n - 1));
    assert forall |k: int| 0 <= k < n implies saved(c1, popped, l, k) == saved(c0, popped, l, k) by {
        lemma_same_above(c0, c1, popped, l, n, k);
    }
}
// after restore: new cache == old saved(n-1), lengths lost its last entry, popped lost its last segment
pub proof fn lemma_restore_below<T>(c0: Seq<T>, p0: Seq<T>, l0: Seq<(usize, usize)>, c1: Seq<T>, p1: Seq<T>, l1: Seq<(usize, usize)>, n: int, k: int)
    requires n == l0.len(), n > 0, l1 == l0.drop_last(), c1 == saved(c0, p0, l0, n - 1),
        p0.len() == off(l0, n), p1 == p0.subrange(0, off(l0, n - 1)),
        forall |j: int| 0 <= j < l0.len() ==> (#[trigger] l0[j]).1 <= l0[j].0,
        0 <= k <= n - 1,
    ensures saved(c1, p1, l1, k) == saved(c0, p0, l0, k)
    decreases n - k
{
    if k < n - 1 {
        lemma_restore_below(c0, p0, l0, c1, p1, l1, n, k + 1);
        lemma_off_prefix(l0, l1, k);
        lemma_off_prefix(l0, l1, k + 1);
        lemma_off_mono(l0, k + 1, n - 1);
        lemma_off_mono(l0, k, k + 1);
        lemma_off_mono(l0, n - 1, n);
        assert(p1.subrange(off(l1, k), off(l1, k + 1)) =~= p0.subrange(off(l0, k), off(l0, k + 1)));
    }
}


pub proof fn lemma_clear<T>(c: Seq<T>, p0: Seq<T>, l0: Seq<(usize, usize)>, p1: Seq<T>, l1: Seq<(usize, usize)>, n: int)
    requires n == l0.len(), n >= 2, l1.len() == n - 1, wf_nums(c.len() as int, p0.len() as int, l0),
        forall |j: int| 0 <= j < n - 2 ==> l0[j] == l1[j],
        l1[n-2].0 == l0[n-2].0,
        l1[n-2].1 == (if l0[n-2].1 <= l0[n-1].1 { l0[n-2].1 } else { l0[n-1].1 }),
        p1 == p0.subrange(0, off(l0, n - 1)) + p0.subrange(off(l0, n) - (l0[n-2].1 - l1[n-2].1), p0.len() as int),
    ensures wf_nums(c.len() as int, p1.len() as int, l1),
        forall |k: int| 0 <= k < n - 1 ==> saved(c, p1, l1, k) == saved(c, p0, l0, k)
{
    let prem = l0[n-2].1 as int; let rem = l0[n-1].1 as int; let len = l0[n-1].0 as int;
    let pp = prem - l1[n-2].1;  // parent_popped
    lemma_off_mono(l0, n - 2, n - 1);
    lemma_off_mono(l0, n - 1, n);
    lemma_off_prefix(l0, l1, n - 2);
    let a = off(l0, n - 2); let b = off(l0, n - 1); let e = off(l0, n);
    assert(off(l1, n - 1) == a + (l0[n-2].0 - l1[n-2].1));
    assert(p1.len() == off(l1, n - 1));
    // saved(n-2)
    let s_child = saved(c, p0, l0, n - 1);
    assert(saved(c, p0, l0, n) == c);
    let seg_c = p0.subrange(b, e);
    let seg_p = p0.subrange(a, b);
    assert(s_child == c.subrange(0, rem) + seg_c.reverse());
    let seg_new = p1.subrange(a, off(l1, n - 1));
    assert(seg_new =~= seg_p + seg_c.subrange(seg_c.len() - pp, seg_c.len() as int));
    assert(saved(c, p1, l1, n - 1) == c);
    if prem <= rem {
        assert(pp == 0);
        assert(seg_new =~= seg_p);
        assert(s_child.subrange(0, prem) =~= c.subrange(0, prem));
    } else {
        assert(pp == prem - rem);
        let tail = seg_c.subrange(seg_c.len() - pp, seg_c.len() as int);
        assert(seg_new.reverse() =~= tail.reverse() + seg_p.reverse());
        assert(tail.reverse() =~= seg_c.reverse().subrange(0, pp));
        assert(s_child.subrange(0, prem) =~= c.subrange(0, rem) + seg_c.reverse().subrange(0, pp));
    }
    assert(saved(c, p1, l1, n - 2) =~= saved(c, p0, l0, n - 2));
    assert(p1.subrange(0, a) =~= p0.subrange(0, a));
    assert forall |k: int| 0 <= k < n - 1 implies saved(c, p1, l1, k) == saved(c, p0, l0, k) by {
        lemma_clear_below(c, p0, l0, p1, l1, n, k);
    }
}
pub proof fn lemma_clear_below<T>(c: Seq<T>, p0: Seq<T>, l0: Seq<(usize, usize)>, p1: Seq<T>, l1: Seq<(usize, usize)>, n: int, k: int)
    requires n == l0.len(), n >= 2, l1.len() == n - 1,
        forall |j: int| 0 <= j < l0.len() ==> (#[trigger] l0[j]).1 <= l0[j].0,
        forall |j: int| 0 <= j < n - 2 ==> l0[j] == l1[j],
        p0.len() == off(l0, n), p1.len() >= off(l0, n - 2),
        p1.subrange(0, off(l0, n - 2)) == p0.subrange(0, off(l0, n - 2)),
        saved(c, p1, l1, n - 2) == saved(c, p0, l0, n - 2), 0 <= k <= n - 2,
    ensures saved(c, p1, l1, k) == saved(c, p0, l0, k)
    decreases n - k
{
    if k < n - 2 {
        lemma_clear_below(c, p0, l0, p1, l1, n, k + 1);
        lemma_off_prefix(l0, l1, k);
        lemma_off_prefix(l0, l1, k + 1);
        lemma_off_mono(l0, k + 1, n - 2);
        lemma_off_mono(l0, k, k + 1);
        lemma_off_mono(l0, n - 2, n);
        let x = off(l0, k); let y = off(l0, k + 1); let z = off(l0, n - 2);
        assert(p1.subrange(x, y) =~= p1.subrange(0, z).subrange(x, y));
        assert(p0.subrange(x, y) =~= p0.subrange(0, z).subrange(x, y));
    }
}

} // verus!
fn main() {}
