use vstd::prelude::*;
use vstd::utf8::*;
verus! {
pub assume_specification<'a, I: core::slice::SliceIndex<str>> [str::get::<I>] (s: &'a str, i: I) -> (r: Option<&'a I::Output>)
   ensures call_ensures(<I as core::slice::SliceIndex<str>>::get, (i, s), r);

fn t2(s: &str, i: usize) -> (r: Option<char>)
    requires i <= encode_utf8(s@).len(), is_char_boundary(encode_utf8(s@), i as int)
{
    let t = &s[i..];
    assert(encode_utf8(t@) == encode_utf8(s@).subrange(i as int, encode_utf8(s@).len() as int));
    let mut c = t.chars();
    let r = c.next();
    proof {
      if r is Some { assert(t@.len() > 0 && r->Some_0 == t@[0]); } else { assert(t@.len() == 0); }
    }
    r
}

fn t3(s: &str, i: usize) -> (r: bool)
    ensures r == is_char_boundary(encode_utf8(s@), i as int)
{
    s.is_char_boundary(i)
}
fn t4(s: &str, i: usize) -> (r: bool)
{
    let x = s.get(i..);
    assert(x is Some <==> i <= encode_utf8(s@).len() && is_char_boundary(encode_utf8(s@), i as int));
    x.is_some()
}

} // verus!
fn main() {}
