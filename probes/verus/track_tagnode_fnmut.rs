use vstd::prelude::*;
verus! {

#[derive(Clone, Copy, Debug, Eq, PartialEq)]
pub enum Lookahead { Positive, Negative, None }
#[derive(Clone, Copy, Debug, Eq, PartialEq)]
pub enum Atomicity { Atomic, CompoundAtomic, NonAtomic }

pub enum QueueableToken<'i, R> {
    Start { end_token_index: usize, input_pos: usize },
    End { start_token_index: usize, rule: R, tag: Option<&'i str>, input_pos: usize },
}

pub type ParseResult<S> = Result<S, S>;

pub struct ParserState<'i, R> {
    pub pos: usize,
    pub queue: Vec<QueueableToken<'i, R>>,
    pub lookahead: Lookahead,
    pub atomicity: Atomicity,
    pub attempt_pos: usize,
    pub pos_attempts: Vec<R>,
    pub neg_attempts: Vec<R>,
    pub enabled: bool,
    pub calls: usize,
}

impl<'i, R: Copy> ParserState<'i, R> {
    #[verifier::exec_allows_no_decreases_clause]
    pub fn repeat<F>(mut self: Box<Self>, mut f: F) -> (r: ParseResult<Box<Self>>)
    where
        F: FnMut(Box<Self>) -> ParseResult<Box<Self>>,
        requires forall |s: Box<Self>| f.requires((s,)),
    {
        let mut result = f(self);

        loop {
            match result {
                Ok(state) => result = f(state),
                Err(state) => return Ok(state),
            };
        }
    }

    fn attempts_at(&self, pos: usize) -> usize {
        if self.attempt_pos == pos {
            self.pos_attempts.len() + self.neg_attempts.len()
        } else {
            0
        }
    }

    fn track(
        &mut self,
        rule: R,
        pos: usize,
        pos_attempts_index: usize,
        neg_attempts_index: usize,
        prev_attempts: usize,
    ) {
        if self.atomicity == Atomicity::Atomic {
            return;
        }
        let curr_attempts = self.attempts_at(pos);
        if curr_attempts > prev_attempts && curr_attempts - prev_attempts == 1 {
            return;
        }

        if pos == self.attempt_pos {
            self.pos_attempts.truncate(pos_attempts_index);
            self.neg_attempts.truncate(neg_attempts_index);
        }

        if pos > self.attempt_pos {
            self.pos_attempts.clear();
            self.neg_attempts.clear();
            self.attempt_pos = pos;
        }

        let attempts = if self.lookahead != Lookahead::Negative {
            &mut self.pos_attempts
        } else {
            &mut self.neg_attempts
        };

        if pos == self.attempt_pos {
            attempts.push(rule);
        }
    }

    pub fn tag_node(mut self: Box<Self>, tag: &'i str) -> ParseResult<Box<Self>> {
        if self.lookahead != Lookahead::None {
            return Ok(self);
        }
        if let Some(QueueableToken::End { tag: old, .. }) = self.queue.last_mut() {
            *old = Some(tag)
        }
        Ok(self)
    }

    pub fn rule_tail(mut new_state: Box<Self>, index: usize, rule: R) -> Box<Self>
    {
                    let new_index = new_state.queue.len();
                    match new_state.queue[index] {
                        QueueableToken::Start {
                            ref mut end_token_index,
                            ..
                        } => *end_token_index = new_index,
                        _ => unreachable!(),
                    };

                    let new_pos = new_state.pos;

                    new_state.queue.push(QueueableToken::End {
                        start_token_index: index,
                        rule,
                        tag: None,
                        input_pos: new_pos,
                    });
        new_state
    }
}

} // verus!
fn main() {}
