use vstd::prelude::*;
verus! {

#[derive(Clone, Copy, Debug, Eq, PartialEq)]
pub enum Lookahead { Positive, Negative, None }

pub struct Position<'i> { pub input: &'i str, pub pos: usize }

pub enum QueueableToken<'i, R> {
    Start { end_token_index: usize, input_pos: usize },
    End { start_token_index: usize, rule: R, tag: Option<&'i str>, input_pos: usize },
}

pub type ParseResult<S> = Result<S, S>;

pub struct ParserState<'i, R> {
    pub position: Position<'i>,
    pub queue: Vec<QueueableToken<'i, R>>,
    pub lookahead: Lookahead,
    pub attempt_pos: usize,
}

impl<'i, R: Copy> ParserState<'i, R> {
    fn inc_call_check_limit(self: Box<Self>) -> (r: ParseResult<Box<Self>>)
        ensures r is Ok ==> r->Ok_0 == self, r is Err ==> r->Err_0 == self
    {
        Ok(self)
    }

    pub fn optional<F>(mut self: Box<Self>, f: F) -> (r: ParseResult<Box<Self>>)
    where
        F: FnOnce(Box<Self>) -> ParseResult<Box<Self>>,
        requires forall |s: Box<Self>| f.requires((s,)),
        ensures r is Ok
    {
        self = self.inc_call_check_limit()?;
        match f(self) {
            Ok(state) | Err(state) => Ok(state),
        }
    }

    pub fn sequence<F>(mut self: Box<Self>, f: F) -> (r: ParseResult<Box<Self>>)
    where
        F: FnOnce(Box<Self>) -> ParseResult<Box<Self>>,
        requires forall |s: Box<Self>| f.requires((s,)),
          forall |s: Box<Self>, r: ParseResult<Box<Self>>| f.ensures((s,), r) ==> (r is Err ==> r->Err_0.queue@.len() >= s.queue@.len()),
        ensures r is Err ==> r->Err_0.queue@.len() == self.queue@.len(),
    {
        self = self.inc_call_check_limit()?;
        let token_index = self.queue.len();
        let initial_pos = self.position.pos;

        let result = f(self);

        match result {
            Ok(new_state) => Ok(new_state),
            Err(mut new_state) => {
                // Restore the initial position and truncate the token queue.
                new_state.position.pos = initial_pos;
                new_state.queue.truncate(token_index);
                Err(new_state)
            }
        }
    }
}

} // verus!
fn main() {}
