use vstd::prelude::*;
verus! {
pub struct Tracker { pub cur: Option<(usize, usize)>, pub refused: Ghost<bool> }
pub struct St { pub pos: usize, pub extra: usize, pub t: Tracker }
pub type ParseResult<S> = Result<S, S>;

pub open spec fn core(s: Box<St>) -> (usize, Option<(usize,usize)>) { (s.pos, s.t.cur) }
pub open spec fn rcore(r: ParseResult<Box<St>>) -> (bool, (usize, Option<(usize,usize)>)) {
    match r { Ok(n) => (true, core(n)), Err(n) => (false, core(n)) }
}

impl Tracker {
    fn limit_reached(&self) -> (r: bool)
        ensures r == (self.cur is Some && self.cur->Some_0.0 >= self.cur->Some_0.1)
    {
        match self.cur { Some((c, l)) => c >= l, None => false }
    }
}

impl St {
    fn inc(mut self: Box<Self>) -> (r: ParseResult<Box<Self>>)
        ensures r is Err ==> r->Err_0.t.refused@ && r->Err_0.pos == self.pos,
                r is Ok ==> r->Ok_0.t.refused@ == self.t.refused@ && r->Ok_0.pos == self.pos && r->Ok_0.extra == self.extra,
    {
        if self.t.limit_reached() {
            self.t.refused = Ghost(true);
            return Err(self);
        }
        Ok(self)
    }

    pub fn optional<F>(mut self: Box<Self>, f: F) -> (r: ParseResult<Box<Self>>)
    where
        F: FnOnce(Box<Self>) -> ParseResult<Box<Self>>,
        requires forall |s: Box<Self>| f.requires((s,)),
        ensures r is Err ==> r->Err_0.pos == self.pos,
          r is Ok ==> exists |m: ParseResult<Box<Self>>| #[trigger] f.ensures((self,), m) && (m is Ok ==> r->Ok_0 == m->Ok_0) && (m is Err ==> r->Ok_0 == m->Err_0)
    {
        self = self.inc()?;
        match f(self) {
            Ok(state) | Err(state) => Ok(state),
        }
    }
}

pub open spec fn oblivious<F: FnOnce(Box<St>) -> ParseResult<Box<St>>>(f: F) -> bool {
    forall |s1: Box<St>, s2: Box<St>, r1: ParseResult<Box<St>>, r2: ParseResult<Box<St>>|
        core(s1) == core(s2) && #[trigger] f.ensures((s1,), r1) && #[trigger] f.ensures((s2,), r2) ==> rcore(r1) == rcore(r2)
}

proof fn optional_oblivious<F: FnOnce(Box<St>) -> ParseResult<Box<St>>>(f: F, s1: Box<St>, s2: Box<St>, r1: ParseResult<Box<St>>, r2: ParseResult<Box<St>>)
    requires oblivious(f), core(s1) == core(s2),
        call_ensures(St::optional::<F>, (s1, f), r1),
        call_ensures(St::optional::<F>, (s2, f), r2),
    ensures r1 is Ok == r2 is Ok
{
}

} // verus!
fn main() {}
