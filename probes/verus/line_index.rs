use vstd::prelude::*;
verus! {
#[verifier::external_body]
pub fn pp_le(v: &Vec<usize>, pos: usize) -> (r: usize)
  requires forall |i:int,j:int| 0<=i<j<v@.len() ==> v@[i] <= v@[j]
  ensures r <= v@.len(), forall |i:int| 0<=i<r ==> v@[i] <= pos, forall |i:int| r<=i<v@.len() ==> v@[i] > pos
{ v.partition_point(|&it| it <= pos) }
#[verifier::external_body]
pub fn chars_count(s: &str) -> (r: usize) ensures r == s@.len() { s.chars().count() }
pub struct LineIndex { pub line_offsets: Vec<usize> }

impl LineIndex {
    pub fn new(text: &str) -> LineIndex {
        let mut line_offsets: Vec<usize> = vec![0];

        let mut offset = 0;

        for c in text.chars() {
            offset += c.len_utf8();
            if c == '\n' {
                line_offsets.push(offset);
            }
        }

        LineIndex { line_offsets }
    }
    pub fn line_col(&self, input: &str, pos: usize) -> (usize, usize) {
        let line = pp_le(&self.line_offsets, pos) - 1;
        let first_offset = self.line_offsets[line];

        // Get line str from original input, then we can get column offset
        let line_str = &input[first_offset..pos];
        let col = chars_count(line_str);

        (line + 1, col + 1)
    }
}
} // verus!
fn main() {}
