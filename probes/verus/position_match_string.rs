use vstd::prelude::*;
use vstd::utf8::*;
use vstd::string::*;
verus! {

pub struct Position<'i> { pub input: &'i str, pub pos: usize }

impl<'i> Position<'i> {
    pub open spec fn wf(&self) -> bool {
        self.pos <= self.input.spec_bytes().len() && is_char_boundary(self.input.spec_bytes(), self.pos as int)
    }
    pub fn match_string(&mut self, string: &str) -> (r: bool)
        requires old(self).wf(), old(self).pos + string.spec_bytes().len() <= usize::MAX
        ensures final(self).input == old(self).input,
           r ==> final(self).pos == old(self).pos + string.spec_bytes().len()
                 && final(self).input.spec_bytes().subrange(old(self).pos as int, final(self).pos as int) == string.spec_bytes(),
           !r ==> final(self).pos == old(self).pos,
           r == (old(self).pos + string.spec_bytes().len() <= old(self).input.spec_bytes().len() &&
                 old(self).input.spec_bytes().subrange(old(self).pos as int, old(self).pos + string.spec_bytes().len()) == string.spec_bytes()),
    {
        let to = self.pos + string.len();

        if Some(string.as_bytes()) == self.input.as_bytes().get(self.pos..to) {
            self.pos = to;
            true
        } else {
            false
        }
    }
    pub fn match_range(&mut self, range: core::ops::Range<char>) -> (r: bool)
        requires old(self).wf()
        ensures final(self).wf(), final(self).input == old(self).input,
           !r ==> final(self).pos == old(self).pos,
    {
        if let Some(c) = self.input[self.pos..].chars().next() {
            if range.start <= c && c <= range.end {
                self.pos += c.len_utf8();
                return true;
            }
        }

        false
    }
}

} // verus!
fn main() {}
