use vstd::prelude::*;
verus! {
pub open spec fn clone_is_id<T: Clone>() -> bool {
    forall |a: &T, b: T| #[trigger] call_ensures(T::clone, (a,), b) ==> *a == b
}
fn t<T: Clone>(v: &mut Vec<T>, x: &T)
    requires clone_is_id::<T>(),
    ensures final(v)@ == old(v)@.push(*x)
{
    v.push(x.clone());
}
} // verus!
fn main() {}
