use vstd::prelude::*;
verus! {
pub struct St { pub pos: usize, pub calls: usize }
pub type ParseResult<S> = Result<S, S>;

pub open spec fn law(s: Box<St>, r: ParseResult<Box<St>>) -> bool {
    match r { Ok(n) => n.pos >= s.pos, Err(n) => n.pos >= s.pos }
}

impl St {
    #[verifier::exec_allows_no_decreases_clause]
    pub fn repeat<F>(self: Box<Self>, mut f: F) -> (r: ParseResult<Box<Self>>)
    where
        F: FnMut(Box<Self>) -> ParseResult<Box<Self>>,
        requires forall |s: Box<Self>| f.requires((s,)),
                 forall |s: Box<Self>, r: ParseResult<Box<Self>>| f.ensures((s,), r) ==> law(s, r),
        ensures r is Ok, law(self, r)
    {
        let mut result = f(self);

        loop
            invariant forall |s: Box<Self>| f.requires((s,)),
                 forall |s: Box<Self>, r: ParseResult<Box<Self>>| f.ensures((s,), r) ==> law(s, r),
                 law(self, result)
        {
            match result {
                Ok(state) => result = f(state),
                Err(state) => return Ok(state),
            };
        }
    }
}
} // verus!
fn main() {}
