#[cfg(kani)]
mod proofs {
    use pest::iterators::PairsBuilder;
    use pest::pratt_parser::{Assoc, Op, ConstPrattParser};

    #[allow(non_camel_case_types)]
    #[derive(Clone, Copy, Debug, Eq, Hash, Ord, PartialEq, PartialOrd)]
    enum Rule { num, add, pow, neg, fac }

    // reference: classical precedence climbing over token kinds, RPN output
    fn lbp(r: Rule) -> (u32, u32) { // (left bp, right bp)
        match r { Rule::add => (20, 20), Rule::pow => (30, 29), Rule::fac => (50, 0), Rule::neg => (0, 39), Rule::num => (0, 0) }
    }
    fn ref_expr(toks: &[Rule], i: &mut usize, rbp: u32, out: &mut [u8; 8], n: &mut usize) {
        let t = toks[*i]; *i += 1;
        match t {
            Rule::neg => { ref_expr(toks, i, lbp(Rule::neg).1, out, n); out[*n] = b'-'; *n += 1; }
            _ => { out[*n] = b'n'; *n += 1; }
        }
        while *i < toks.len() && rbp < lbp(toks[*i]).0 {
            let op = toks[*i]; *i += 1;
            match op {
                Rule::fac => { out[*n] = b'!'; *n += 1; }
                _ => { ref_expr(toks, i, lbp(op).1, out, n); out[*n] = if op == Rule::add { b'+' } else { b'^' }; *n += 1; }
            }
        }
    }

    #[kani::proof]
    #[kani::unwind(7)]
    fn pratt_len3() {
        // well-formed sequences of length 3: n op n | - n ! | n ! ! | - - n | n ! ...
        let k: u8 = kani::any();
        let toks: [Rule; 3] = match k % 6 {
            0 => [Rule::num, Rule::add, Rule::num],
            1 => [Rule::num, Rule::pow, Rule::num],
            2 => [Rule::neg, Rule::num, Rule::fac],
            3 => [Rule::num, Rule::fac, Rule::fac],
            4 => [Rule::neg, Rule::neg, Rule::num],
            _ => [Rule::neg, Rule::num, Rule::fac],
        };
        let pairs = PairsBuilder::new("abc").rule(toks[0], 0, 1).rule(toks[1], 1, 2).rule(toks[2], 2, 3).build();
        let pratt = ConstPrattParser::new_const([
            (Op::infix(Rule::add, Assoc::Left), true),
            (Op::infix(Rule::pow, Assoc::Right), true),
            (Op::prefix(Rule::neg), true),
            (Op::postfix(Rule::fac), true)]);
        let got: ([u8; 8], usize) = pratt
            .map_primary(|_p| { let mut a = [0u8; 8]; a[0] = b'n'; (a, 1usize) })
            .map_prefix(|_op, (mut a, n)| { a[n] = b'-'; (a, n + 1) })
            .map_postfix(|(mut a, n), _op| { a[n] = b'!'; (a, n + 1) })
            .map_infix(|(mut a, n), op, (b, m)| { for j in 0..m { a[n + j] = b[j]; } a[n + m] = if op.as_rule() == Rule::add { b'+' } else { b'^' }; (a, n + m + 1) })
            .parse(pairs);
        let mut out = [0u8; 8]; let mut n = 0usize; let mut i = 0usize;
        ref_expr(&toks, &mut i, 0, &mut out, &mut n);
        assert_eq!(got.1, n);
        assert_eq!(got.0, out);
    }
}
