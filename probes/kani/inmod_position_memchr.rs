use super::Position;
fn any_str<const N: usize>(buf: &mut [u8; N]) -> &str {
    let len: usize = kani::any();
    kani::assume(len <= N);
    for i in 0..N { buf[i] = kani::any(); }
    match core::str::from_utf8(&buf[..len]) { Ok(s) => s, Err(_) => { kani::assume(false); "" } }
}

#[kani::proof]
#[kani::unwind(6)]
fn skip_until_two() {
    let mut buf = [0u8; 3];
    let s = any_str(&mut buf);
    let mut b1 = [0u8; 1]; let mut b2 = [0u8; 1];
    let s1 = any_str(&mut b1); let s2 = any_str(&mut b2);
    let mut p = Position::from_start(s);
    let mut q = Position::from_start(s);
    let _r1 = p.skip_until(&[s1, s2]);
    let _r2 = q.skip_until_basic(&[s1, s2]);
    assert_eq!(p.pos(), q.pos());
}
