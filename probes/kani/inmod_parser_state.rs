#[kani::proof]
fn normalize_index_complete() {
    let i: i32 = kani::any();
    let len: usize = kani::any();
    kani::assume(len <= i32::MAX as usize);
    let r = super::normalize_index(i, len);
    let expect = if i >= 0 { if (i as usize) <= len { Some(i as usize) } else { None } }
                 else { let k = len as i64 + i as i64; if k >= 0 { Some(k as usize) } else { None } };
    assert_eq!(r, expect);
}
