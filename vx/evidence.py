"""Evidence writer and known-findings matching."""
import json
import os
import re


def load_known(root):
    p = os.path.join(root, "known_findings.json")
    if not os.path.exists(p):
        return {"findings": [], "fixed": []}
    return json.load(open(p))


def match_known(known, pid, obligation_name):
    """A finding suppresses exactly one obligation name of one property."""
    for kf in known.get("findings", []):
        if kf.get("property") == pid and kf.get("obligation") == obligation_name:
            return kf
    return None


def _strip_crate(n):
    return n.split("::", 1)[1] if "::" in n else n


def fn_relevant(r, qname, pid):
    """does function `qname` (unit-local name) serve property pid?"""
    info = r.fn_infos.get(qname)
    if info is not None:
        if pid in info.tags:
            return True
        return any(fn == qname and pid in _tags_of_label(r, fn, lab) for (fn, lab) in r.clause_labels)
    vt = getattr(r, "verbatim_tags", {}).get(qname)
    if vt is None:
        return True      # untagged helper lemma/spec of the unit: part of every proof that uses the unit
    return pid in vt


def _tags_of_label(r, fn, lab):
    return getattr(r, "label_tags", {}).get((fn, lab), ())


def count_obligations(r, pid):
    """(obligations, discharged, per_function[]) of unit result r restricted to functions serving pid"""
    total = disc = 0
    per = []
    for vname, n in sorted(r.obligations_by_fn.items()):
        q = _strip_crate(vname)
        if not fn_relevant(r, q, pid):
            continue
        if q.startswith("kf_"):
            continue   # known-finding wrappers are reported apart (known_findings_hit), neither required nor counted as discharged
        fb = r.functions.get(vname, {})
        ok = fb.get("success", True) and not any(f.fn == q for f in r.failures)
        total += n
        if ok:
            disc += n
        per.append(dict(function=q, backend="verus/z3", obligations=n, discharged=n if ok else 0,
                        solver_ms=fb.get("time_ms", 0), rlimit=fb.get("rlimit", 0), mode=fb.get("mode", ""),
                        source=(r.fn_infos[q].src_file + ":" + str(r.fn_infos[q].src_line)) if q in r.fn_infos else "specs/%s.vx (lemma/spec)" % r.unit))
    return total, disc, per


def write_evidence(root, pid, P, tier, seed, unit_results, kani_results, failures, known_hit, undecided, other_failures, wall, status):
    obligations = discharged = 0
    per_function, trusted, samples, canaries, dropped, rewrites, cmds = [], [], [], {}, [], [], []
    fns_under_contract = []
    known_names = {f.name for (f, _kf) in known_hit}
    for r in unit_results:
        o, d, per = count_obligations(r, pid)
        obligations += o
        discharged += d
        per_function += per
        trusted += ["%s: %s" % (r.unit, t) for t in r.trusted]
        cmds.append("(cd /verif/out && %s)" % r.cmd)
        canaries[r.unit + ("/" + json.dumps(r.config) if r.config else "")] = r.canaries
        dropped += r.dropped
        rewrites += r.rewrites
        for q, info in r.fn_infos.items():
            if fn_relevant(r, q, pid):
                fns_under_contract.append("%s  (%s:%d)%s" % (q, info.src_file, info.src_line, " [external_body: contract assumed]" if info.external_body else ""))
        labs = [(fn, lab) for (fn, lab) in r.clause_labels if fn_relevant(r, fn, pid)]
        for (fn, lab) in labs[:12]:
            samples.append("%s::%s" % (fn, lab))
    kani_complete = [k for k in kani_results if k.get("complete")]
    kani_bounded = [k for k in kani_results if not k.get("complete")]
    for k in kani_complete:
        obligations += k.get("checks", 1)
        if k["status"] == "ok":
            discharged += k.get("checks", 1)
        per_function.append(dict(function=k["harness"], backend="kani/cbmc (loop-free, full domain)", obligations=k.get("checks", 1),
                                 discharged=k.get("checks", 1) if k["status"] == "ok" else 0, solver_ms=int(k.get("wall_s", 0) * 1000)))
        samples.append("kani harness %s: %s" % (k["harness"], k.get("what", "")))
        cmds.append(k.get("cmd", ""))
    # obligations listed as known findings are reported apart: they are not counted as discharged nor as required
    kf_list = [dict(obligation=f.name, message=f.message, where=f.where, finding=kf.get("id", "")) for (f, kf) in known_hit]
    new_fail = [dict(obligation=f.name, message=f.message, where=f.where) for (_r, f) in failures if f.name not in known_names]
    cov = dict(
        obligations=obligations,
        discharged=discharged,
        checker_cmd=" ; ".join(c for c in cmds if c) or "none",
        trusted_base=sorted(set(trusted)) + P.get("assumptions", []),
        samples=samples[:40] or ["(none)"],
        functions_under_contract=sorted(set(fns_under_contract)),
        per_function=per_function,
        bounded_checks=[dict(harness=k["harness"], bound=k.get("bound", ""), result=k["status"], wall_s=round(k.get("wall_s", 0), 1),
                             what=k.get("what", ""), note="bounded stand-in: NOT counted in discharged") for k in kani_bounded],
        canaries=canaries,
        extraction=dict(dropped=sorted(set(dropped)), rewrites=rewrites,
                        note="functions are copied token-for-token from /repo on every run; see DESIGN.md 3.2/3.3 for the full list of what extraction drops or rewrites"),
        known_findings_hit=kf_list,
        failed_obligations=new_fail,
        undecided=undecided,
        failed_obligations_of_other_properties=sorted({f.name for (_r, f) in other_failures}),
        not_covered=P.get("not_covered", []),
        configurations=[dict(unit=r.unit, config=r.config) for r in unit_results],
        solver_ms=sum(r.smt_ms for r in unit_results),
        design_ref=P.get("design_ref", ""),
        verdict={0: "holds", 1: "violation", 2: "undecided"}[status],
    )
    evd = dict(property_id=pid, tier=tier, seed=seed, level="proof", coverage=cov,
               assumptions=sorted(set(trusted)) + P.get("assumptions", []), wall_s=round(wall, 2),
               violations=len(new_fail))
    os.makedirs(os.path.join(root, "evidence"), exist_ok=True)
    with open(os.path.join(root, "evidence", pid + ".json"), "w") as f:
        json.dump(evd, f, indent=1)
