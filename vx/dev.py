"""Developer loop: python3 -m vx.dev <unit> [--fn NAME] [--cfg k=v ...] [--rlimit N] [--canaries]"""
import argparse, json, os, subprocess, sys, time
ROOT = os.path.dirname(os.path.dirname(os.path.abspath(__file__)))
sys.path.insert(0, ROOT)
from vx.weave import Weaver, AnchorLoss
from vx.verus_run import VERUS, parse_diags

def main():
    ap = argparse.ArgumentParser()
    ap.add_argument("unit"); ap.add_argument("--fn", default=None); ap.add_argument("--cfg", nargs="*", default=[])
    ap.add_argument("--rlimit", default=None); ap.add_argument("--expand", action="store_true"); ap.add_argument("--raw", action="store_true")
    ap.add_argument("--profile", action="store_true")
    a = ap.parse_args()
    cfg = {}
    for kv in a.cfg:
        k, v = kv.split("="); cfg[k] = (v == "true")
    try:
        w = Weaver(os.environ.get("VERIF_REPO", "/repo"), os.path.join(ROOT, "specs", a.unit + ".vx"), cfg).run()
    except AnchorLoss as e:
        print("ANCHOR LOSS:", e); return 2
    os.makedirs(os.path.join(ROOT, "out"), exist_ok=True)
    p = os.path.join(ROOT, "out", a.unit + "_dev.rs")
    open(p, "w").write(w.text())
    cmd = [VERUS, os.path.basename(p), "--triggers-mode", "silent", "--error-format=json", "--multiple-errors", "8", "--time", "--output-json"]
    if a.fn: cmd += ["--verify-root", "--verify-function", a.fn]
    if a.rlimit: cmd += ["--rlimit", a.rlimit]
    if a.expand: cmd += ["--expand-errors"]
    if a.profile: cmd += ["--profile"]
    t0 = time.time()
    r = subprocess.run(cmd, cwd=os.path.join(ROOT, "out"), capture_output=True, text=True)
    n = 0
    for d in parse_diags(r.stderr):
        if d.get("level") not in ("error", "warning") and not a.raw: continue
        if d.get("message", "").startswith("aborting"): continue
        n += 1
        print("-" * 80)
        print(d.get("rendered", "").rstrip())
        for s in d.get("spans", []):
            ln = s["line_start"]
            if 1 <= ln <= len(w.out):
                L = w.out[ln - 1]
                print("    ^ gen:%d -> %s:%d %s %s" % (ln, L.ofile, L.oline, L.fn, ("#" + L.label) if L.label else ""))
    try:
        j = json.loads(r.stdout[r.stdout.index("{"):])
        vr = j["verification-results"]; print("=" * 80); print("verified=%s errors=%s total_ms=%s" % (vr.get("verified"), vr.get("errors"), j["times-ms"]["total"]))
        fb = []
        for m in j["times-ms"]["smt"]["smt-run-module-times"]:
            fb += m["function-breakdown"]
        fb.sort(key=lambda x: -x["time"])
        for f in fb[:8]:
            print("   %6d ms  rlimit=%-10d %s %s" % (f["time"], f["rlimit"], "ok " if f["success"] else "FAIL", f["function"]))
    except Exception as e:
        print("no json:", e, r.stdout[-500:], r.stderr[-1500:] if n == 0 else "")
    print("wall %.1fs" % (time.time() - t0))
    return 0

if __name__ == "__main__":
    sys.exit(main())
