"""Kani harness runner (complete loop-free harnesses and bounded stand-ins).

A harness result is one of
  ok         VERIFICATION:- SUCCESSFUL
  failed     a user assertion / panic / overflow check failed (a refutation; CBMC is exact on loop-free code)
  undecided  timeout, out of memory, unwinding assertion, unsupported construct, build error
A timeout or a tool limit is never a verdict.
"""
import os
import re
import subprocess
import time

from .verus_run import Failure

TARGET = "out/target-kani"


def run_cargo_kani(root, crate_dir, harnesses, extra_args=(), timeout=1800, jobs=8, env_extra=None, package=None):
    env = dict(os.environ, CARGO_NET_OFFLINE="true", CARGO_TARGET_DIR=os.path.join(root, TARGET))
    if env_extra:
        env.update(env_extra)
    cmd = ["cargo", "kani", "-j", str(jobs), "--output-format", "terse"] + list(extra_args)
    if package:
        cmd += ["-p", package]
    for h in harnesses:
        cmd += ["--harness", h]
    t0 = time.time()
    try:
        p = subprocess.run(cmd, cwd=crate_dir, env=env, capture_output=True, text=True, timeout=timeout)
        out, rc, timed_out = p.stdout + "\n" + p.stderr, p.returncode, False
    except subprocess.TimeoutExpired as e:
        so = e.stdout.decode(errors="replace") if isinstance(e.stdout, bytes) else (e.stdout or "")
        se = e.stderr.decode(errors="replace") if isinstance(e.stderr, bytes) else (e.stderr or "")
        out, rc, timed_out = so + "\n" + se, -9, True
        subprocess.run(["pkill", "-f", "cbmc"], capture_output=True)
    wall = time.time() - t0
    res = parse_kani_output(out, harnesses)
    for h in harnesses:
        r = res.setdefault(h, dict(status="undecided", reason="no result reported (%s)" % ("timeout after %ds" % timeout if timed_out else "exit %s" % rc), output=out[-3000:]))
        r["harness"] = h
        r["cmd"] = "(cd %s && CARGO_NET_OFFLINE=true %s)" % (crate_dir, " ".join(cmd))
        r.setdefault("wall_s", wall)
    return res, out, wall


def parse_kani_output(out, harnesses):
    """Handles both the sequential and the `-j` (Thread N:) output formats."""
    res = {}
    cur = {}       # thread -> harness
    blocks = {}    # harness -> text
    for line in out.split("\n"):
        m = re.match(r"^(?:Thread (\d+): )?Checking harness (\S+?)\.\.\.", line)
        if m:
            th = m.group(1) or "0"
            cur[th] = m.group(2)
            blocks.setdefault(m.group(2), "")
            continue
        m = re.match(r"^Thread (\d+):\s*$", line)
        if m:
            cur["_active"] = m.group(1)
            continue
        th = cur.get("_active", "0")
        h = cur.get(th)
        if h:
            blocks[h] += line + "\n"
    for full, text in blocks.items():
        short = full.split("::")[-1]
        key = full if full in harnesses else short
        r = dict(output=text[-3000:])
        m = re.search(r"Verification Time: ([0-9.]+)s", text)
        if m:
            r["wall_s"] = float(m.group(1))
        m = re.search(r"\*\* (\d+) of (\d+) failed", text)
        if m:
            r["checks"] = int(m.group(2))
            r["checks_failed"] = int(m.group(1))
        if "VERIFICATION:- SUCCESSFUL" in text:
            r["status"] = "ok"
        elif "VERIFICATION:- FAILED" in text:
            failed = re.findall(r"Failed Checks: (.*)", text)
            tool = [f for f in failed if re.search(r"unwinding assertion|not supported|unsupported|is not currently supported", f)]
            real = [f for f in failed if f not in tool]
            if real:
                r["status"] = "failed"
                r["reason"] = "; ".join(real[:5])
            else:
                r["status"] = "undecided"
                r["reason"] = "only tool-limit checks failed: " + "; ".join(tool[:3]) if tool else "FAILED without a failed check listed"
        else:
            continue
        res[key] = r
    return res


def as_failure(kr, pid):
    kind = kr.get("kind", "kani")
    return Failure(kr["harness"], kind, kr["harness"], (pid,), kr.get("reason", "%s harness failed" % kind),
                   kr.get("where", ""), "%s::%s" % (kind, kr["harness"]), kr.get("output", "")[-3000:])


# ------------------------------------------------------------------ per property
def run_for(root, repo, pid, P, tier):
    results = []
    for group in P.get("kani", []):
        results += GROUPS[group](root, repo, pid, P, tier)
    return results


def group_unicode(root, repo, pid, P, tier):
    from . import gen_unicode
    try:
        d, harnesses, info = gen_unicode.generate(root, repo)
    except gen_unicode.GenError as e:
        return [dict(harness="unicode/*", status="undecided", reason=str(e), complete=True)]
    sel = [h for h in harnesses if tier == "thorough" or h["tier"] == "quick"]
    res, out, wall = run_cargo_kani(root, d, [h["name"] for h in sel], timeout=3000 if tier == "thorough" else 900, jobs=10)
    final = []
    for h in sel:
        r = res[h["name"]]
        r.update(complete=h["complete"], what=h["what"], bound=h.get("bound", "none (loop-free harness over the full `char` domain)"))
        final.append(r)
    # name clause: by_name goes through to_uppercase()/String and Box<dyn Fn>; a Kani harness for a name deep in the tables did not
    # finish in 15 minutes. Stand-in: an exhaustive native enumeration (every advertised name x every scalar value) on the real code.
    # Labelled as a stand-in: never counted in `discharged`.
    from . import replay as rp
    t0 = time.time()
    try:
        p = rp._unicode_search(root, repo, ["--names"], timeout=900)
        out = p.stdout + p.stderr
        st = "ok" if "NAMES-OK" in p.stdout else ("failed" if "WITNESS" in p.stdout else "undecided")
        reason = ""
        for line in p.stdout.split("\n"):
            if line.startswith("WITNESS "):
                reason = line[8:]
    except Exception as e:   # build problem, timeout
        out, st, reason = str(e), "undecided", str(e)
    if tier != "thorough":
        # script disjointness: the complete Kani harness takes about 4 minutes and runs in the thorough tier; the quick tier
        # runs the same clause as an exhaustive native sweep (all 1,112,064 scalars x 163 scripts) - enumerative, not counted as proved
        t1 = time.time()
        try:
            p2 = rp._unicode_search(root, repo, ["scripts_pairwise_disjoint"], timeout=900)
            st2 = "ok" if "NO-WITNESS" in p2.stdout else ("failed" if "WITNESS" in p2.stdout else "undecided")
            reason2 = ""
            for line in p2.stdout.split("\n"):
                if line.startswith("WITNESS "):
                    reason2 = line[8:]
            out2 = p2.stdout + p2.stderr
        except Exception as e:
            out2, st2, reason2 = str(e), "undecided", str(e)
        final.append(dict(harness="scripts_pairwise_disjoint_sweep", kind="enum", status=st2, reason=reason2 or out2[-300:], output=out2[-2000:], complete=False,
                          what="no scalar value is matched by two of the 163 script rules (the clause of the thorough-tier Kani harness scripts_pairwise_disjoint)",
                          bound="exhaustive native sweep (1,112,064 scalars x 163 scripts) on the real code - enumerative, not a deductive proof",
                          wall_s=time.time() - t1, cmd="cargo run --release (out/unicode_search) -- scripts_pairwise_disjoint"))
    final.append(dict(harness="names_resolve_and_agree", status=st, reason=reason or out[-300:], output=out[-2000:], complete=False,
                      what="every advertised property name is listed, resolves through unicode::by_name and agrees with its function on every scalar value; the grammar validator accepts it as a built-in; pest_vm and a derive-generated parser resolve it to the same function (compared at every range edge and on a stride sample)",
                      bound="exhaustive native enumeration (names x 1,112,064 scalars) on the real code - an enumerative stand-in, not a deductive proof",
                      wall_s=time.time() - t0, cmd="cargo run --release (out/unicode_search) -- --names"))
    return final


INMOD = {
    # name: (harness path, tier, complete?, what, bound)
    "c03": [("parser_state::verif_kani::constrain_idxs_complete", "quick", True,
             "constrain_idxs(start, end, len) equals the index normalisation spec norm_idx for every i32 start, every Option<i32> end and every len <= i32::MAX (the contract ASSUMED in the core unit)",
             "none: loop-free harness over the full domain")],
    "c10": [("position::verif_kani::find_line_start_chars3", "thorough", False,
             "find_line_start == ls (the contract now proved in the lines unit; kept as a cross-check) for every string of <= 3 characters over {a, \\n, \\r, é, €} and every boundary offset", "<= 3 characters from a 5-character mixed-width alphabet, unwind 11"),
            ("position::verif_kani::find_line_end_chars3", "thorough", False,
             "find_line_end == le (now proved in the lines unit; cross-check), same bound", "<= 3 characters from a 5-character mixed-width alphabet, unwind 11"),
            ("position::verif_kani::line_col_chars3", "thorough", False,
             "Position::line_col == (1 + newlines, 1 + characters since the last newline), same bound", "<= 3 characters from a 5-character mixed-width alphabet, unwind 11"),
            ("position::verif_kani::position_line_col_bounded_3", "thorough", False,
             "Position::line_col equals (1 + newlines, 1 + characters since the last newline) - every valid UTF-8 string of <= 3 bytes, every boundary offset", "strings <= 3 bytes, unwind 6"),
            ("position::verif_kani::find_line_start_end_bounded_3", "thorough", False,
             "find_line_start == ls, find_line_end == le, line_of is the bytes between them (the contracts ASSUMED in the lines unit) - strings <= 3 bytes", "strings <= 3 bytes, unwind 6"),
            ("position::verif_kani::position_line_col_bounded_4", "thorough", False, "as above, strings <= 4 bytes", "strings <= 4 bytes, unwind 7"),
            ("position::verif_kani::find_line_start_end_bounded_4", "thorough", False, "as above, strings <= 4 bytes", "strings <= 4 bytes, unwind 7")],
}


def _group_inmod(key):
    def g(root, repo, pid, P, tier):
        sel = [h for h in INMOD[key] if tier == "thorough" or h[1] == "quick"]
        if not sel:
            return []
        hook = os.path.join(repo, "pest", "src", "position.rs")
        try:
            if "verif_kani" not in open(hook).read():
                return [dict(harness=h[0], status="undecided", reason="cfg(kani) hook missing in /repo", complete=h[2], what=h[3], bound=h[4]) for h in sel]
        except OSError as e:
            return [dict(harness=h[0], status="undecided", reason=str(e), complete=h[2], what=h[3], bound=h[4]) for h in sel]
        names = [h[0].split("::")[-1] for h in sel]
        res, out, wall = run_cargo_kani(root, os.path.join(repo, "pest"), names, timeout=2400 if tier == "thorough" else 600, jobs=4)
        final = []
        for h in sel:
            r = res[h[0].split("::")[-1]]
            r.update(harness=h[0], complete=h[2], what=h[3], bound=h[4])
            final.append(r)
        return final
    return g


def _group_enum(searcher, harness, what, bound, env_quick=None, env_thorough=None):
    """Native enumeration over the real crate (replay/src/bin/<searcher>_search.rs): an enumerative stand-in for clauses no
    contract reaches and a cross-check of the contracted ones. Reported under bounded_checks, never counted as proved."""
    def g(root, repo, pid, P, tier):
        from . import replay as rp
        t0 = time.time()
        env = dict(os.environ)
        env.update((env_thorough if tier == "thorough" else env_quick) or {})
        ok, log = rp.build_searchers(root, repo, [searcher])
        if not ok:
            st, reason, out = "undecided", "searcher build failed", log
        else:
            try:
                p = subprocess.run([rp.searcher_bin(root, searcher), "--search", pid], capture_output=True, text=True, timeout=1500, env=env)
                out = p.stdout + p.stderr
                st = "ok" if "NO-WITNESS" in p.stdout else ("failed" if "WITNESS" in p.stdout else "undecided")
                reason = ""
                for line in p.stdout.split("\n"):
                    if line.startswith("WITNESS "):
                        reason = line[8:]
                    elif line.startswith("NO-WITNESS "):
                        reason = line[11:]
            except subprocess.TimeoutExpired:
                st, reason, out = "undecided", "timeout", ""
        b = bound(tier) if callable(bound) else bound
        extra = []
        for line in (out or "").split("\n"):
            # a searcher reports a listed known finding separately and goes on: it becomes its own (failed) obligation, which the
            # check matches against known_findings.json by name - a different failure of the same enumeration is still reported
            if line.startswith("KNOWN-WITNESS "):
                kid, _, kjson = line[14:].partition(" ")
                extra.append(dict(harness="%s[%s]" % (harness, kid), kind="enum", status="failed", reason=kjson, output=line, complete=False,
                                  what="known finding %s reproduced by the enumeration" % kid, bound=b, wall_s=0.0,
                                  cmd="out/target-replay/release/%s_search --search %s" % (searcher, pid)))
        return extra + [dict(harness=harness, kind="enum", status=st, reason=reason or out[-300:], output=out[-2000:], complete=False, what=what,
                     bound=b + " - exhaustive native enumeration on the real code, not a deductive proof",
                     wall_s=time.time() - t0, cmd="out/target-replay/release/%s_search --search %s" % (searcher, pid))]
    return g


group_lines_enum = _group_enum(
    "lines", "lines_enumeration",
    "positions, spans, pairs (builder / into_inner / flatten / parse), errors and the rendered marker agree with the definition at every offset and offset pair",
    lambda tier: "every text of <= %s characters over {a, \\n, \\r, é, €, \\t}" % ("6" if tier == "thorough" else "5"),
    env_quick=dict(VX_LINES_MAXLEN="5"), env_thorough=dict(VX_LINES_MAXLEN="6"))
group_pairs_enum = _group_enum(
    "pairs", "pairs_enumeration",
    "every view of a PairsBuilder tree agrees with the tree: walks in three interleavings with len/size_hint, peek, tokens, flatten (both ways), single, into_inner, "
    "and the node-tag views (as_node_tag, find_tagged = pre-order filter, find_first_tagged = its first element) that are iterator-adaptor code outside every contract",
    "all forests of <= 3 nodes over the 4 boundaries of a 3-character input x every assignment of tags {none, t, u}")
group_peek_enum = _group_enum(
    "peek", "peek_slice_enumeration",
    "stack_match_peek_slice / stack_match_peek / stack_match_pop agree with the direct reading (index normalisation, bottom-to-top / top-to-bottom concatenation, no movement on failure)",
    "stacks of <= 3 literals over {'', a, b, ab, é} x inputs of <= 3 characters over {a, b, é} x every start offset x start in -4..=4 x end in {None} U -4..=4 x both directions")


GROUPS = {"unicode": group_unicode, "inmod_c03": _group_inmod("c03"), "inmod_c10": _group_inmod("c10"), "lines_enum": group_lines_enum, "pairs_enum": group_pairs_enum, "peek_enum": group_peek_enum}
