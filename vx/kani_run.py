"""Kani harness runner (complete loop-free harnesses and bounded stand-ins)."""
from .verus_run import Failure


def run_for(root, repo, pid, P, tier):
    return []


def as_failure(kr, pid):
    return Failure(kr["harness"], "kani", kr["harness"], (pid,), kr.get("reason", "kani harness failed"),
                   kr.get("where", ""), "kani::%s" % kr["harness"], kr.get("output", "")[-3000:])
