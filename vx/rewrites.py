"""The closed table of call-site rewrites (DESIGN.md section 3.3).

Every rule works on the comment-free body text of one extracted function and
keeps the number of newlines unchanged, so the line map stays exact.  A rule
either preserves semantics by the language reference, or replaces a std /
dependency call by a trusted helper (declared in the unit's prelude as
`#[verifier::external_body]`, body = the original expression) whose contract
is an *assumption* reported in evidence.
"""
import re

RULES = {}


def rule(name, doc):
    def deco(f):
        RULES[name] = (f, doc)
        return f
    return deco


def _pad(orig, new):
    """pad `new` with the newlines `orig` had, so line numbers after it stay put"""
    d = orig.count("\n") - new.count("\n")
    return new + ("\n" * d if d > 0 else "")


def _sub(pattern, repl, body, flags=re.S):
    count = 0

    def f(m):
        nonlocal count
        count += 1
        new = repl(m) if callable(repl) else m.expand(repl)
        return _pad(m.group(0), new)
    return re.sub(pattern, f, body, flags=flags), count


def _split_top_comma(s):
    out, depth, cur, i = [], 0, "", 0
    in_str = False
    while i < len(s):
        ch = s[i]
        if in_str:
            cur += ch
            if ch == '\\':
                cur += s[i + 1]; i += 1
            elif ch == '"':
                in_str = False
        elif ch == '"':
            in_str = True; cur += ch
        elif ch in "([{":
            depth += 1; cur += ch
        elif ch in ")]}":
            depth -= 1; cur += ch
        elif ch == ',' and depth == 0:
            out.append(cur); cur = ""
        else:
            cur += ch
        i += 1
    if cur.strip():
        out.append(cur)
    return out


def _macro_calls(body, name):
    """yield (start, end, inner) for each `name!( ... )` followed by optional ';'"""
    res = []
    for m in re.finditer(r"\b%s\s*!\s*\(" % re.escape(name), body):
        i = m.end()
        depth = 1
        in_str = False
        while i < len(body) and depth:
            ch = body[i]
            if in_str:
                if ch == '\\':
                    i += 1
                elif ch == '"':
                    in_str = False
            elif ch == '"':
                in_str = True
            elif ch == '(':
                depth += 1
            elif ch == ')':
                depth -= 1
            i += 1
        res.append((m.start(), i, body[m.end():i - 1]))
    return res


@rule("R1", "drop(V.drain(A..B)); / drop(V.drain(A..)); -> vx_drain_drop(&mut V, A, B | V.len());   [trusted std contract]")
def r1(body):
    def rep(m):
        v, a, b = m.group(1), " ".join(m.group(2).split()), " ".join((m.group(3) or "").split())
        if not b:
            return "{ let vx_dl = %s.len(); vx_drain_drop(&mut %s, %s, vx_dl); }" % (v, v, a)
        return "vx_drain_drop(&mut %s, %s, %s);" % (v, a, b)
    return _sub(r"\bdrop\(\s*([\w\.]+?)\s*\.\s*drain\(\s*([^;]+?)\s*\.\.\s*([^;]*?)\s*\)\s*,?\s*\)\s*;", rep, body)


@rule("R2", "let X = V.drain(A..); W.extend(X.rev()); -> vx_extend_rev_drain_from(&mut W, &mut V, A);   [trusted std contract]")
def r2(body):
    return _sub(r"\blet\s+(\w+)\s*=\s*([\w\.]+?)\s*\.\s*drain\(\s*([^;]+?)\s*\.\.\s*\)\s*;\s*([\w\.]+?)\s*\.\s*extend\(\s*\1\s*\.\s*rev\(\s*\)\s*\)\s*;",
                lambda m: "vx_extend_rev_drain_from(&mut %s, &mut %s, %s);" % (m.group(4), m.group(2), m.group(3)), body)


@rule("R2b", "let X = V.drain(A..); W.extend(X); -> vx_extend_drain_from(&mut W, &mut V, A);   [trusted std contract]")
def r2b(body):
    return _sub(r"\blet\s+(\w+)\s*=\s*([\w\.]+?)\s*\.\s*drain\(\s*([^;]+?)\s*\.\.\s*\)\s*;\s*([\w\.]+?)\s*\.\s*extend\(\s*\1\s*\)\s*;",
                lambda m: "vx_extend_drain_from(&mut %s, &mut %s, %s);" % (m.group(4), m.group(2), m.group(3)), body)


@rule("R3", "debug_assert!(E) / debug_assert_eq!(A,B) -> proved assertion on the executable operands   [strengthening]")
def r3(body):
    count = 0
    for name in ("debug_assert_eq", "debug_assert_ne", "debug_assert"):
        while True:
            calls = _macro_calls(body, name)
            if not calls:
                break
            s, e, inner = calls[0]
            args = _split_top_comma(inner)
            if name == "debug_assert":
                new = "{ let vx_da: bool = %s; assert(vx_da); }" % args[0].strip()
            elif name == "debug_assert_eq":
                new = "{ let vx_a = %s; let vx_b = %s; assert(vx_a == vx_b); }" % (args[0].strip(), args[1].strip())
            else:
                new = "{ let vx_a = %s; let vx_b = %s; assert(vx_a != vx_b); }" % (args[0].strip(), args[1].strip())
            # swallow the trailing ';'
            m = re.match(r"\s*;", body[e:])
            if m:
                e += m.end()
            body = body[:s] + _pad(body[s:e], new) + body[e:]
            count += 1
    return body, count


@rule("R16", "&S[A..B] / S[A..] on a `str` place named input/self.input -> vx_str_slice*(S, A, B)   [trusted std contract: vstd specifies the precondition of str indexing but not its result]")
def r16(body):
    def rep(m):
        x, a, b = m.group(2), (m.group(3) or "").strip(), (m.group(4) or "").strip()
        if a and b:
            return "vx_str_slice(%s, %s, %s)" % (x, a, b)
        if a:
            return "vx_str_slice_from(%s, %s)" % (x, a)
        if b:
            return "vx_str_slice_to(%s, %s)" % (x, b)
        return "vx_str_slice_full(%s)" % x
    return _sub(r"(&\s*)?\b((?:self\s*\.\s*)?input)\s*\[\s*([^\[\];]*?)\s*\.\.\s*([^\[\];]*?)\s*\]", rep, body)


@rule("R15", "for _ in E -> for vx_i in E   [renaming of an ignored pattern, so that loop invariants can mention the counter]")
def r15(body):
    return _sub(r"\bfor\s+_\s+in\b", lambda m: "for vx_i in", body)


@rule("R17", "for P in E.iter() / E.chars() / E.take(N) -> for P in vx_it: E.iter()   [Verus-only label naming the ghost iterator; no executable change]")
def r17(body):
    return _sub(r"\bfor\s+(\w+)\s+in\s+(?!vx_it)([\w\.]+\.(?:(?:iter|chars)\(\)|take\(\w+\)))", lambda m: "for %s in vx_it: %s" % (m.group(1), m.group(2)), body)


@rule("R4", "X.sort(); X.dedup(); -> vx_sort_dedup(&mut X);   [trusted std contract]")
def r4(body):
    return _sub(r"\b([\w\.]+?)\s*\.\s*sort\(\s*\)\s*;\s*\1\s*\.\s*dedup\(\s*\)\s*;", lambda m: "vx_sort_dedup(&mut %s);" % m.group(1), body)


@rule("R5", "V.partition_point(|&it| it <= P) -> vx_partition_point_le(&V, P)   [trusted std contract]")
def r5(body):
    return _sub(r"\b([\w\.]+?)\s*\.\s*partition_point\(\s*\|\s*&\s*(\w+)\s*\|\s*\2\s*<=\s*(\w+)\s*\)", lambda m: "vx_partition_point_le(&%s, %s)" % (m.group(1), m.group(3)), body)


@rule("R6", "S.chars().count() -> vx_chars_count(S)   [trusted std contract]")
def r6(body):
    return _sub(r"\b(\w+)\s*\.\s*chars\(\s*\)\s*\.\s*count\(\s*\)", lambda m: "vx_chars_count(%s)" % m.group(1), body)


@rule("R9", "for P in A..B { BODY } -> { let mut vx_rng = A..B; loop { match vx_rng.next() { Some(P) => { BODY } None => break, } } }   [the language reference's definition of `for`; needed because Verus for-loops reject `continue`]")
def r9(body):
    count = 0
    pos = 0
    while True:
        m = re.compile(r"\bfor\s+(\w+)\s+in\s+([^{};]+?\.\.[^{};]+?)\s*\{").search(body, pos)
        if not m:
            break
        # match the body braces
        i = m.end() - 1
        depth = 0
        j = i
        in_str = False
        while j < len(body):
            ch = body[j]
            if in_str:
                if ch == '\\':
                    j += 1
                elif ch == '"':
                    in_str = False
            elif ch == '"':
                in_str = True
            elif ch == '{':
                depth += 1
            elif ch == '}':
                depth -= 1
                if depth == 0:
                    break
            j += 1
        name = "vx_rng%d" % count if count else "vx_rng"
        head = "{ let mut %s = %s; loop { match %s.next() { Some(%s) => {" % (name, " ".join(m.group(2).split()), name, m.group(1))
        head = _pad(m.group(0), head)
        tail = "} None => break, } } }"
        body = body[:m.start()] + head + body[m.end():j] + tail + body[j + 1:]
        pos = m.start() + len(head)
        count += 1
    return body, count


@rule("R10", "let mut C = |p: T| { B }; ... C(&mut p); -> closure definition removed, each call replaced by { B }   [inlining; legal when parameter and argument have the same name and the closure is called at most once per path]")
def r10(body):
    m = re.search(r"\blet\s+(?:mut\s+)?(\w+)\s*=\s*\|\s*(\w+)\s*:\s*&mut\s+[^|]+\|\s*\{", body)
    if not m:
        return body, 0
    name, param = m.group(1), m.group(2)
    i = m.end() - 1
    depth, j = 0, i
    while j < len(body):
        if body[j] == '{':
            depth += 1
        elif body[j] == '}':
            depth -= 1
            if depth == 0:
                break
        j += 1
    block = body[i:j + 1]
    k = j + 1
    mm = re.match(r"\s*;", body[k:])
    if not mm:
        return body, 0
    k += mm.end()
    # side conditions: every use of the closure is `name(&mut param);`
    rest = body[:m.start()] + _blank_keep_nl(body[m.start():k]) + body[k:]
    uses = list(re.finditer(r"\b%s\b" % re.escape(name), rest))
    calls = list(re.finditer(r"\b%s\(\s*(&mut\s+)?(\w+)\s*\)\s*;" % re.escape(name), rest))
    if len(uses) != len(calls) or not calls:
        return body, 0
    flat = " ".join(block.split())
    out = rest
    for c in reversed(calls):
        arg = c.group(2)
        blk = flat
        if c.group(1) is None:
            # called as C(x) with x: &mut T (a reborrow): the parameter is renamed to the argument
            if arg != param:
                blk = re.sub(r"\b%s\b" % re.escape(param), arg, flat)
        elif arg != param:
            return body, 0
        out = out[:c.start()] + _pad(c.group(0), blk) + out[c.end():]
    return out, len(calls)


def _blank_keep_nl(s):
    return "\n" * s.count("\n")


@rule("R18", "String::from(S) -> vx_string_from(S)   [trusted std contract: the String holds the same text]")
def r18(body):
    return _sub(r"\bString::from\(\s*(\w+)\s*\)", lambda m: "vx_string_from(%s)" % m.group(1), body)


@rule("R11", "E.map(|_| V) -> match E { Some(_) => Some(V), None => None }   [Option::map on a closure that ignores its argument]")
def r11(body):
    count = 0
    for m in list(re.finditer(r"\.\s*map\(\s*\|\s*_\s*\|", body)):
        # receiver: back to the start of the expression statement (after `{`, `;` or `=`)
        i = m.start()
        k = i
        depth = 0
        while k > 0:
            ch = body[k - 1]
            if ch in ")]}":
                depth += 1
            elif ch in "([{":
                if depth == 0:
                    break
                depth -= 1
            elif ch in ";=" and depth == 0:
                break
            k -= 1
        recv = body[k:i].strip()
        j = _match_brace(body, body.index("(", m.start() + 1))
        val = body[m.end():j].strip()
        new = " match %s { Some(_) => Some(%s), None => None }" % (" ".join(recv.split()), val)
        body = body[:k] + _pad(body[k:j + 1], new) + body[j + 1:]
        count += 1
        break
    return body, count


@rule("R23", "core::cmp::min(A, B) / max(A, B) (also written cmp::min / cmp::max) -> vx_min_usize(A, B) / vx_max_usize(A, B)   [trusted std contract at type usize]")
def r23(body):
    return _sub(r"\b(?:core::)?cmp::(min|max)\(", lambda m: "vx_%s_usize(" % m.group(1), body)


@rule("R20", "let X = E.map(|p| BODY).unwrap_or(D); -> let X = match E { Some(p) => BODY, None => D };   [std definition of Option::map + unwrap_or; Verus gives an un-annotated closure no postcondition]")
def r20(body):
    count = 0
    for m in list(re.finditer(r"\blet\s+(\w+)\s*=\s*([^;=]+?)\.\s*map\(\s*\|\s*(\w+)\s*\|", body)):
        i = body.find("map(", m.start()) + 3
        # matching paren of `map(`
        depth, j = 0, i
        while j < len(body):
            if body[j] in "([{":
                depth += 1
            elif body[j] in ")]}":
                depth -= 1
                if depth == 0:
                    break
            j += 1
        tail = re.match(r"\s*\.\s*unwrap_or\(\s*([^()]+?)\s*\)\s*;", body[j + 1:])
        if not tail:
            continue
        closure_body = body[m.end():j]
        new = "let %s = match %s { Some(%s) => %s, None => %s };" % (m.group(1), " ".join(m.group(2).split()), m.group(3), closure_body.strip(), tail.group(1))
        end = j + 1 + tail.end()
        body = body[:m.start()] + _pad(body[m.start():end], new) + body[end:]
        count += 1
        break
    return body, count


def _match_brace(body, i):
    depth, j, in_str = 0, i, False
    while j < len(body):
        ch = body[j]
        if in_str:
            if ch == '\\':
                j += 1
            elif ch == '"':
                in_str = False
        elif ch == '"':
            in_str = True
        elif ch in "([{":
            depth += 1
        elif ch in ")]}":
            depth -= 1
            if depth == 0:
                return j
        j += 1
    return -1


@rule("R21", "match S { [] => A, [a] => B, [a, b] if G => C, .., _ => D } on a slice -> if-chain on S.len() with `let a = &S[0]; ..` bindings   [the language reference's meaning of slice patterns; Verus does not support them]")
def r21(body):
    m = re.search(r"\bmatch\s+(\w+)\s*\{\s*\[", body)
    if not m:
        return body, 0
    scrut = m.group(1)
    o = body.index("{", m.start())
    c = _match_brace(body, o)
    inner = body[o + 1:c]
    # split arms
    arms, i = [], 0
    while i < len(inner):
        while i < len(inner) and inner[i] in " \t\r\n,":
            i += 1
        if i >= len(inner):
            break
        j = inner.index("=>", i)
        head = inner[i:j].strip()
        k = j + 2
        while inner[k] in " \t\r\n":
            k += 1
        if inner[k] == "{":
            e = _match_brace(inner, k)
            arm_body = inner[k:e + 1]
            i = e + 1
        else:
            # expression arm up to the next top-level comma
            depth, e = 0, k
            while e < len(inner) and not (inner[e] == "," and depth == 0):
                if inner[e] in "([{":
                    depth += 1
                elif inner[e] in ")]}":
                    depth -= 1
                e += 1
            arm_body = "{ " + inner[k:e].strip() + " }"
            i = e
        arms.append((head, arm_body))
    out = []
    for idx, (head, arm_body) in enumerate(arms):
        gm = re.match(r"^(\[[^\]]*\]|_)\s*(?:if\s+(.*))?$", head, re.S)
        if not gm:
            return body, 0
        pat, guard = gm.group(1), gm.group(2)
        kw = "if" if idx == 0 else "else if"
        if pat == "_":
            out.append("else " + arm_body if idx else arm_body)
            continue
        names = [x.strip() for x in pat[1:-1].split(",") if x.strip()]
        binds = " ".join("let %s = &%s[%d];" % (n, scrut, q) for q, n in enumerate(names))
        cond = "%s.len() == %d" % (scrut, len(names))
        if guard:
            cond += " && { %s %s }" % (binds, " ".join(guard.split()))
        blk = "{ " + binds + " " + arm_body + " }" if names else arm_body
        out.append("%s %s %s" % (kw, cond, blk))
    new = " ".join(out)
    return body[:m.start()] + _pad(body[m.start():c + 1], new) + body[c + 1:], 1


@rule("R22", "X.starts_with(Y) on str -> vx_str_starts_with(X, Y)   [trusted std contract: generic Pattern API]")
def r22(body):
    return _sub(r"\b(\w+)\s*\.\s*starts_with\(\s*(\w+)\s*\)", lambda m: "vx_str_starts_with(%s, %s)" % (m.group(1), m.group(2)), body)


@rule("R9b", "for P in ITER { BODY } (ITER a local iterator value) -> { let mut vx_itr = ITER; loop { match vx_itr.next() { Some(P) => { BODY } None => break, } } }   [definition of `for`]")
def r9b(body):
    count = 0
    pos = 0
    while True:
        m = re.compile(r"\bfor\s+(\w+)\s+in\s+(\w+)\s*\{").search(body, pos)
        if not m:
            break
        j = _match_brace(body, m.end() - 1)
        name = "vx_itr%d" % count if count else "vx_itr"
        head = "{ let mut %s = %s; loop { match %s.next() { Some(%s) => {" % (name, m.group(2), name, m.group(1))
        head = _pad(m.group(0), head)
        tail = "} None => break, } } }"
        body = body[:m.start()] + head + body[m.end():j] + tail + body[j + 1:]
        pos = m.start() + len(head)
        count += 1
    return body, count


@rule("R24", "for P in &E { -> for P in vx_it: E.iter() {   [`impl IntoIterator for &Vec<T>` is `iter()`; names the ghost iterator]")
def r24(body):
    return _sub(r"\bfor\s+(\w+)\s+in\s+&\s*([\w\.]+)\s*\{", lambda m: "for %s in vx_it: %s.iter() {" % (m.group(1), m.group(2)), body)


def _for_skip(body, method, borrow):
    count = 0
    pos = 0
    while True:
        m = re.compile(r"\bfor\s+(\w+)\s+in\s+([\w\.\s]+?)\s*\.\s*%s\s*\(\s*\)\s*\.\s*skip\s*\(\s*(\w+)\s*\)\s*\{" % method).search(body, pos)
        if not m:
            break
        j = _match_brace(body, m.end() - 1)
        inner = body[m.end():j]
        if re.search(r"\bcontinue\b", inner):
            pos = m.end()
            continue      # side condition not met: leave it (the unit then loses its anchor)
        ix = "vx_ix%d" % count if count else "vx_ix"
        place = "".join(m.group(2).split())
        head = "{ let mut %s: usize = %s; while %s < %s.len() { let %s = %s%s[%s];" % (ix, m.group(3), ix, place, m.group(1), borrow, place, ix)
        head = _pad(m.group(0), head)
        tail = "%s += 1; } }" % ix
        body = body[:m.start()] + head + inner + tail + body[j + 1:]
        pos = m.start() + len(head)
        count += 1
    return body, count


@rule("R25", "for P in V.iter().skip(N) { B } -> { let mut vx_ix = N; while vx_ix < V.len() { let P = &V[vx_ix]; B vx_ix += 1; } }   [desugaring of the slice iterator: skip(N) past the end yields nothing, as does the loop; side condition: no `continue` in B]")
def r25(body):
    return _for_skip(body, "iter", "&")


@rule("R25b", "for P in V.iter_mut().skip(N) { B } -> the same index loop with `let P = &mut V[vx_ix];`")
def r25b(body):
    return _for_skip(body, "iter_mut", "&mut ")


@rule("R26", "V.splice(N.., W); (result dropped) -> vx_vec_splice_tail(&mut V, N, W);   [std contract: panics unless N <= len; afterwards V == old V[..N] ++ W]")
def r26(body):
    return _sub(r"([\w\.\s]+?)\s*\.\s*splice\s*\(\s*(\w+)\s*\.\.\s*,\s*(\w+)\s*\)\s*;",
                lambda m: "%svx_vec_splice_tail(&mut %s, %s, %s);" % (re.match(r"\s*", m.group(1)).group(0), "".join(m.group(1).split()), m.group(2), m.group(3)), body)


def _match_paren(body, i):
    """index of the `)` matching the `(` at i (strings skipped)"""
    depth, j, in_str = 0, i, False
    while j < len(body):
        ch = body[j]
        if in_str:
            if ch == '\\':
                j += 1
            elif ch == '"':
                in_str = False
        elif ch == '"':
            in_str = True
        elif ch in "([{":
            depth += 1
        elif ch in ")]}":
            depth -= 1
            if depth == 0:
                return j
        j += 1
    return -1


_RECV = r"((?:self\s*\.\s*)?\w+(?:\s*\.\s*\w+(?:\s*\(\s*\))?)*?)"


def _option_closure_method(body, method, nargs, build):
    count, pos = 0, 0
    while True:
        m = re.compile(_RECV + r"\s*\.\s*%s\s*\(" % method).search(body, pos)
        if not m:
            break
        close = _match_paren(body, m.end() - 1)
        if close < 0:
            break
        args = _split_top_comma(body[m.end():close])
        cm = re.match(r"^\s*\|([^|]+)\|\s*(.+?)\s*$", args[-1], re.S) if len(args) == nargs else None
        if not cm or re.search(r"\breturn\b|\?|\bbreak\b|\bcontinue\b", cm.group(2)):
            pos = m.end()
            continue
        pat_, expr_ = cm.group(1).strip(), cm.group(2).strip()
        if pat_.startswith("&") and not pat_.startswith("&mut"):
            # a reference pattern `&P` binds by copying out of the reference: `vx_r` bound, then `let P = *vx_r;` (needs Copy, as the
            # original does; Verus has no reference patterns)
            pat_, expr_ = "vx_r", "{ let %s = *vx_r; %s }" % (pat_[1:].strip(), expr_)
        new = build(" ".join(m.group(1).split()), [a.strip() for a in args[:-1]], pat_, expr_)
        old = body[m.start():close + 1]
        body = body[:m.start()] + _pad(old, new) + body[close + 1:]
        pos = m.start() + len(new)
        count += 1
    return body, count


@rule("R27", "E.is_some_and(|P| B) -> match E { Some(P) => B, None => false }   [Option::is_some_and is `match self { None => false, Some(x) => f(x) }`; the closure is inlined; side condition: B without `return`/`?`/`break`/`continue`]")
def r27(body):
    return _option_closure_method(body, "is_some_and", 1, lambda e, a, p, b: "match %s { Some(%s) => %s, None => false }" % (e, p, b))


@rule("R28", "STATIC.load(Ordering::Relaxed) -> vx_atomic_load_STATIC()   [std contract: an atomic load returns some value of the atomic's type; the helper is declared per static in the unit]")
def r28(body):
    return _sub(r"\b([A-Z][A-Z0-9_]+)\s*\.\s*load\s*\(\s*Ordering\s*::\s*Relaxed\s*\)", lambda m: "vx_atomic_load_%s()" % m.group(1), body)


@rule("R41", "E.map(|P| B) on an Option receiver -> match E { Some(P) => Some(B), None => None }   [Option::map is `match self { Some(x) => Some(f(x)), None => None }`; the closure is inlined; same side condition as R27; opt-in because iterators and Result have a `map` too]")
def r41(body):
    return _option_closure_method(body, "map", 1, lambda e, a, p, b: "match %s { Some(%s) => Some(%s), None => None }" % (e, p, b))


@rule("R42", "format!(\"{X}\").len() / format!(\"{}\", X).len() for a usize X -> vx_decimal_len(X)   [std contract: Display of an unsigned integer prints its decimal digits without sign or leading zeros, so the length is the digit count]")
def r42(body):
    body, c1 = _sub(r"\bformat\s*!\s*\(\s*\"\{(\w+)\}\"\s*\)\s*\.\s*len\s*\(\s*\)", lambda m: "vx_decimal_len(%s)" % m.group(1), body)
    body, c2 = _sub(r"\bformat\s*!\s*\(\s*\"\{\}\"\s*,\s*(\w+)\s*\)\s*\.\s*len\s*\(\s*\)", lambda m: "vx_decimal_len(%s)" % m.group(1), body)
    return body, c1 + c2


@rule("R38", "X.into().into() -> vx_into_literal(X)   [the two generic conversions `Into<Cow<'static, str>>` then `From<Cow<'static, str>> for BorrowedOrArc` are one trusted helper whose body is the original expression; its only contract names the text of the result `lit_text(X)`]")
def r38(body):
    return _sub(r"\b(\w+)\s*\.\s*into\s*\(\s*\)\s*\.\s*into\s*\(\s*\)", lambda m: "vx_into_literal(%s)" % m.group(1), body)


@rule("R39", "X.replace(&['\\r', '\\n'][..], \"\") and X.to_owned().replace(&['\\r', '\\n'][..], \"\") -> vx_str_strip_crlf(X)   [String building outside the Verus subset: trusted helper, body = the original expression, no contract]")
def r39(body):
    return _sub(r"\b(\w+)(?:\s*\.\s*to_owned\s*\(\s*\))?\s*\.\s*replace\s*\(\s*&\s*\[\s*'\\r'\s*,\s*'\\n'\s*\]\s*\[\s*\.\.\s*\]\s*,\s*\"\"\s*\)", lambda m: "vx_str_strip_crlf(%s)" % m.group(1), body)


@rule("R40", "the statement run `let mut line_iter = S.lines(); ... let continued_line = ...;` of Error::new_from_span (it computes only the two displayed text fields from the span) -> let (start_line, continued_line) = vx_span_error_texts(S);   [String / iterator-adapter code outside the Verus subset: trusted helper without a contract; side condition: the run defines no other name that is used after it]")
def r40(body):
    m = re.search(r"let\s+mut\s+line_iter\s*=\s*(\w+)\s*\.\s*lines\s*\(\s*\)\s*;", body)
    if not m:
        return body, 0
    k = re.compile(r"let\s+continued_line\s*=\s*").search(body, m.end())
    if not k:
        return body, 0
    # end of the `let continued_line = ...;` statement: the first `;` at nesting depth 0
    depth, j, in_str = 0, k.end(), False
    while j < len(body):
        ch = body[j]
        if in_str:
            if ch == '\\':
                j += 1
            elif ch == '"':
                in_str = False
        elif ch == '"':
            in_str = True
        elif ch in "([{":
            depth += 1
        elif ch in ")]}":
            depth -= 1
        elif ch == ';' and depth == 0:
            break
        j += 1
    if j >= len(body):
        return body, 0
    run = body[m.start():j + 1]
    rest = body[j + 1:]
    defined = set(re.findall(r"\blet\s+(?:mut\s+)?(\w+)", run)) - {"start_line", "continued_line"}
    if any(re.search(r"\b%s\b" % re.escape(d), rest) for d in defined):
        return body, 0
    return body[:m.start()] + "let (start_line, continued_line) = vx_span_error_texts(%s);" % m.group(1) + rest, 1


@rule("R29", "E.map_or(D, |P| B) -> match E { Some(P) => B, None => D }   [Option::map_or is `match self { Some(t) => f(t), None => default }`; closure inlined; same side condition; D is evaluated eagerly in the original and must be call-free here (literal, path, or a constructor applied to such)]")
def r29(body):
    def build(e, a, p, b):
        return "match %s { Some(%s) => %s, None => %s }" % (e, p, b, a[0])
    # eager default: only side-effect-free defaults are rewritten
    out, c = body, 0
    probe = re.compile(_RECV + r"\s*\.\s*map_or\s*\(\s*([\w:]+|(?:Some|Ok|Err)\s*\(\s*[\w:]+\s*\))\s*,")
    if probe.search(body):
        out, c = _option_closure_method(body, "map_or", 2, build)
    return out, c


@rule("R30", "let mut I = V[R].iter(); let F = |P: &T| B; match D { A => I.all(F), Z => I.rev().all(F) } -> let vx_sl = V.index(R); match D { A => <index loop 0..len with early exit>, Z => <index loop len..0 with early exit> }   [`V[R]` is `*Index::index(&V, R)`; Iterator::all stops at the first false; the closure body B is inlined; side condition: I and F are not used elsewhere]")
def r30(body):
    pat = re.compile(
        r"let\s+mut\s+(?P<it>\w+)\s*=\s*(?P<recv>(?:self\s*\.\s*)?\w+(?:\s*\.\s*\w+)*)\s*\[\s*(?P<rng>\w+)\s*\]\s*\.\s*iter\s*\(\s*\)\s*;\s*"
        r"let\s+(?P<f>\w+)\s*=\s*\|\s*(?P<p>\w+)\s*:\s*&[^|]+\|\s*(?P<b>[^;{}]+?)\s*;\s*"
        r"match\s+(?P<d>\w+)\s*\{\s*(?P<a1>[\w:]+)\s*=>\s*(?P=it)\s*\.\s*all\s*\(\s*(?P=f)\s*\)\s*,\s*"
        r"(?P<a2>[\w:]+)\s*=>\s*(?P=it)\s*\.\s*rev\s*\(\s*\)\s*\.\s*all\s*\(\s*(?P=f)\s*\)\s*,?\s*\}", re.S)
    m = pat.search(body)
    if not m:
        return body, 0
    rest = body[:m.start()] + body[m.end():]
    if re.search(r"\b%s\b" % m.group("it"), rest) or re.search(r"\b%s\b" % m.group("f"), rest):
        return body, 0
    b = " ".join(m.group("b").split())
    recv = "".join(m.group("recv").split())
    new = ("let vx_sl = %s.index(%s); match %s {\n"
           "%s => { let mut vx_k: usize = 0; let mut vx_all = true; while vx_k < vx_sl.len() {\n"
           "let %s = &vx_sl[vx_k]; if !(%s) { vx_all = false; break; } vx_k += 1; } vx_all },\n"
           "%s => { let mut vx_k: usize = vx_sl.len(); let mut vx_all = true; while vx_k > 0 { vx_k -= 1;\n"
           "let %s = &vx_sl[vx_k]; if !(%s) { vx_all = false; break; } } vx_all }, }"
           % (recv, m.group("rng"), m.group("d"), m.group("a1"), m.group("p"), b, m.group("a2"), m.group("p"), b))
    if new.count("\n") > m.group(0).count("\n"):
        new = new.replace("\n", " ")
    return body[:m.start()] + _pad(m.group(0), new) + body[m.end():], 1


@rule("R31", "E.chars().peekable() -> vx_peekable(E.chars())   [std contract: Verus cannot attach a specification to the provided trait method Iterator::peekable; the helper's contract is `the peekable iterator has the same remaining items`]")
def r31(body):
    return _sub(r"((?:self\s*\.\s*)?\w+(?:\s*\.\s*\w+)*)\s*\.\s*chars\s*\(\s*\)\s*\.\s*peekable\s*\(\s*\)", lambda m: "vx_peekable(%s.chars())" % "".join(m.group(1).split()), body)


@rule("R32", "if let Some(&LIT) = E { -> if vx_opt_ref_is(E, LIT) {   [a reference pattern with a char literal matches iff E is Some(r) and *r == LIT; the helper is verified, not trusted; Verus has no reference patterns]")
def r32(body):
    return _sub(r"\bif\s+let\s+Some\s*\(\s*&\s*('(?:\\.|[^'\\])')\s*\)\s*=\s*([^{};]+?)\s*\{", lambda m: "if vx_opt_ref_is(%s, %s) {" % (re.sub(r"^(\w+)\s*\.\s*peek\s*\(\s*\)$", r"core::iter::Peekable::peek(&mut \1)", " ".join(m.group(2).split())), m.group(1)), body)


@rule("R33", "S.char_indices()[.rev()].skip_while(|&(a, b)| P).find(|&(c, d)| Q) -> { let mut vx_ci = vx_char_indices(S); let mut vx_skipping = true; let mut vx_found = None; loop { match vx_ci.next() /* next_back() under rev */ { Some(vx_item) => { if vx_skipping { let (a, b) = vx_item; if P { continue; } } vx_skipping = false; let (c, d) = vx_item; if Q { vx_found = Some(vx_item); break; } } None => break, } } vx_found }   [std definitions of SkipWhile::next (the predicate is not consulted again after its first false), Rev::next = next_back and Iterator::find, closures inlined; CharIndices through assumed std contracts]")
def r33(body):
    pat = re.compile(
        r"(?P<recv>(?:self\s*\.\s*)?\w+(?:\s*\.\s*\w+)*?)\s*\.\s*char_indices\s*\(\s*\)\s*(?P<rev>\.\s*rev\s*\(\s*\)\s*)?"
        r"\.\s*skip_while\s*\(\s*\|\s*&\s*\(\s*(?P<a>\w+)\s*,\s*(?P<b>\w+)\s*\)\s*\|\s*(?P<p>[^(){};|]+?)\s*\)\s*"
        r"\.\s*find\s*\(\s*\|\s*&\s*\(\s*(?P<c>\w+)\s*,\s*(?P<d>\w+)\s*\)\s*\|\s*(?P<q>[^(){};|]+?)\s*\)", re.S)
    count = 0
    while True:
        m = pat.search(body)
        if not m:
            break
        nxt = "next_back" if m.group("rev") else "next"
        new = ("{ let mut vx_ci = vx_char_indices(%s); let mut vx_skipping = true; let mut vx_found: Option<(usize, char)> = None;\n"
               "loop { match vx_ci.%s() { Some(vx_item) => {\n"
               "if vx_skipping { let (%s, %s) = vx_item; if %s { continue; } } vx_skipping = false;\n"
               "let (%s, %s) = vx_item; if %s { vx_found = Some(vx_item); break; } }\n"
               "None => break, } } vx_found }"
               % ("".join(m.group("recv").split()), nxt, m.group("a"), m.group("b"), " ".join(m.group("p").split()),
                  m.group("c"), m.group("d"), " ".join(m.group("q").split())))
        if new.count("\n") > m.group(0).count("\n"):
            new = new.replace("\n", " ")
        body = body[:m.start()] + _pad(m.group(0), new) + body[m.end():]
        count += 1
    return body, count


@rule("R35", "E.and_then(|p| B) -> match E { Ok(p) => B, Err(vx_e) => Err(vx_e) }   [Result::and_then is `match self { Ok(t) => op(t), Err(e) => Err(e) }`; the closure is inlined; free rule; side conditions: B without `return`/`?`/`break`/`continue`, single identifier parameter. On an Option receiver the result does not type-check: undecided, never an alarm]")
def r35(body):
    def build(e, a, p, b):
        return "match %s { Ok(%s) => %s, Err(vx_e) => Err(vx_e) }" % (e, p, b)
    count, pos = 0, 0
    pat = re.compile(r"((?:self\s*\.\s*)?\w+(?:\s*\.\s*\w+)*?\s*(?:\([^()]*\))?)\s*\.\s*and_then\s*\(")
    while True:
        m = pat.search(body, pos)
        if not m:
            break
        close = _match_paren(body, m.end() - 1)
        if close < 0:
            break
        arg = body[m.end():close]
        cm = re.match(r"^\s*\|\s*(\w+)\s*\|\s*(.+?)\s*$", arg, re.S)
        im = re.match(r"^\s*(\w+)\s*$", arg)
        if im:
            new = build(" ".join(m.group(1).split()), None, "vx_t", "%s(vx_t)" % im.group(1))
        elif not cm or re.search(r"\breturn\b|\?|\bbreak\b|\bcontinue\b", cm.group(2)):
            pos = m.end()
            continue
        else:
            new = build(" ".join(m.group(1).split()), None, cm.group(1), cm.group(2).strip())
        old = body[m.start():close + 1]
        body = body[:m.start()] + _pad(old, new) + body[close + 1:]
        pos = m.start() + len(new)
        count += 1
    return body, count


@rule("R36", "E.last().copied() / E.first().copied() / E.get(I).copied() -> match E.last() { Some(vx_r) => Some(*vx_r), None => None }   [Option<&T>::copied is that match for T: Copy; free rule; only after a slice accessor that returns Option<&T>, so an Iterator::copied is never touched]")
def r36(body):
    return _sub(r"((?:self\s*\.\s*)?\w+(?:\s*\.\s*\w+)*?\s*\.\s*(?:last|first)\s*\(\s*\)|(?:self\s*\.\s*)?\w+(?:\s*\.\s*\w+)*?\s*\.\s*get\s*\(\s*[\w\s+\-*]+\))\s*\.\s*copied\s*\(\s*\)",
                lambda m: "(match %s { Some(vx_r) => Some(*vx_r), None => None })" % " ".join(m.group(1).split()), body)


# rules that are purely syntactic proof devices are applied only when a unit asks for them
OPT_IN = {"R9", "R9b", "R15", "R17", "R21", "R22", "R24", "R25", "R25b", "R26", "R28", "R30", "R31", "R32", "R33", "R38", "R39", "R40", "R41", "R42"}
# std-definition rules that may fire in any extracted function without being declared by the unit (they are logged)
FREE = {"R27", "R29", "R35", "R36"}


@rule("R3b", "assert!(E, \"msg\") -> proved assertion on the executable operand   [strengthening: the runtime check must never fire]")
def r3b(body):
    count = 0
    while True:
        calls = [c for c in _macro_calls(body, "assert") if not body[max(0, c[0] - 6):c[0]].endswith("debug_")]
        calls = [c for c in calls if re.match(r"assert\s*!", body[c[0]:c[0] + 10])]
        if not calls:
            break
        s0, e, inner = calls[0]
        args = _split_top_comma(inner)
        new = "{ let vx_as: bool = %s; assert(vx_as); }" % " ".join(args[0].split())
        m = re.match(r"\s*;", body[e:])
        if m:
            e += m.end()
        body = body[:s0] + _pad(body[s0:e], new) + body[e:]
        count += 1
    return body, count


def apply_rewrites(body, only=None, declared=()):
    counts = {}
    for name, (f, _doc) in RULES.items():
        if only is not None and name not in only:
            continue
        if name in OPT_IN and name not in declared:
            counts[name] = 0
            continue
        body, c = f(body)
        counts[name] = c
    return body, counts
