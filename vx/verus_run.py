"""Run Verus on a woven unit, build canary variants, classify diagnostics."""
import json
import os
import re
import shutil
import subprocess
import time
from concurrent.futures import ThreadPoolExecutor
from dataclasses import dataclass, field

from . import rustlex as rl
from .weave import Weaver, AnchorLoss

VERUS = shutil.which("verus") or "/usr/local/bin/verus"

# Verus messages that denote a failed proof obligation (anything else at level
# "error" is a tool/extraction problem -> UNDECIDED)
OBLIGATION_MSG = [
    ("postcondition not satisfied", "ensures"),
    ("precondition not satisfied", "pre"),
    ("assertion failed", "assert"),
    ("invariant not satisfied at end of loop body", "loop-inv-preserve"),
    ("invariant not satisfied before loop", "loop-inv-entry"),
    ("possible arithmetic underflow/overflow", "overflow"),
    ("possible division by zero", "div-zero"),
    ("decreases not satisfied", "decreases"),
    ("could not prove termination", "termination"),
    ("unreachable", "unreachable"),
    ("recommendation not met", None),  # notes only
    ("possible bit shift underflow/overflow", "shift"),
    ("cannot show invariant holds", "loop-inv"),
    ("loop invariant not satisfied", "loop-inv"),
    ("index out of bounds", "index"),
    ("function body check", None),
]
RLIMIT_RE = re.compile(r"rlimit|Resource limit|timed? ?out", re.I)


@dataclass
class Failure:
    fn: str
    kind: str
    label: str
    tags: tuple
    message: str
    where: str          # human-readable origin(s)
    name: str = ""      # obligation name (stable key)
    rendered: str = ""
    hint: bool = False  # not a verdict by itself: the failing statement is proof text of the spec (an `assert` in a hint block or a lemma call), not a contract clause


@dataclass
class UnitResult:
    unit: str
    config: dict
    gen_path: str
    status: str = "ok"          # ok | failed | undecided
    undecided_reason: str = ""
    failures: list = field(default_factory=list)
    tool_errors: list = field(default_factory=list)
    functions: dict = field(default_factory=dict)   # verus fn name -> dict(time_ms, rlimit, success, mode, obligations)
    fn_infos: dict = field(default_factory=dict)    # extracted fn qname -> FnInfo
    verified: int = 0
    errors: int = 0
    smt_ms: int = 0
    total_ms: int = 0
    trusted: list = field(default_factory=list)
    canaries: dict = field(default_factory=dict)    # {"start": (n, n_failed_as_expected, [bad...]), "end": ...}
    cmd: str = ""
    dropped: list = field(default_factory=list)
    restructured: list = field(default_factory=list)   # functions whose control skeleton differs from the recorded baseline
    rewrites: list = field(default_factory=list)
    clause_labels: list = field(default_factory=list)
    raw_stderr: str = ""
    wall_s: float = 0.0
    obligations_by_fn: dict = field(default_factory=dict)
    label_tags: dict = field(default_factory=dict)
    verbatim_tags: dict = field(default_factory=dict)


def _run(cmd, cwd, timeout):
    t0 = time.time()
    try:
        p = subprocess.run(cmd, cwd=cwd, capture_output=True, text=True, timeout=timeout)
        return p.returncode, p.stdout, p.stderr, time.time() - t0
    except subprocess.TimeoutExpired as e:
        return -9, (e.stdout or b"").decode() if isinstance(e.stdout, bytes) else (e.stdout or ""), "vx: verus timed out after %ss" % timeout, time.time() - t0


def parse_diags(stderr):
    diags = []
    for line in stderr.split("\n"):
        line = line.strip()
        if not line.startswith("{"):
            continue
        try:
            d = json.loads(line)
        except ValueError:
            continue
        if d.get("$message_type") == "diagnostic":
            diags.append(d)
    return diags


def fn_spans(text):
    """[(first_line, last_line, qualified name, mode, body_open_pos, body_close_pos, attrs)] for all fns inside verus!{}"""
    toks = rl.tokenize(text)
    res = []
    # find `verus ! {`
    code = rl.code_idx(toks)
    for ci, k in enumerate(code):
        if toks[k].text == "verus" and ci + 2 < len(code) and toks[code[ci + 1]].text == '!' and toks[code[ci + 2]].text == '{':
            o = code[ci + 2]
            c = rl.match_close(toks, o)
            items = find_items_verus(toks, o + 1, c)
            _collect(toks, items, "", res)
    return toks, res


_VERUS_QUAL = {"proof", "spec", "exec", "open", "closed", "broadcast", "uninterp", "tracked", "ghost"}


def find_items_verus(toks, lo, hi):
    """like rustlex.find_items, but re-synchronises after Verus fns whose contracts contain braces"""
    old = set(rl._QUAL)
    rl._QUAL |= _VERUS_QUAL
    try:
        items = []
        k = lo
        while k < hi:
            got = rl.find_items(toks, k, hi)
            if not got:
                break
            it = got[0]
            if it.kind == "fn" and it.body_open >= 0:
                _fix_fn_body(toks, it, hi)
            if it.kind in ("impl", "mod", "trait") and it.body_open >= 0:
                it.children = find_items_verus(toks, it.body_open + 1, it.last)
            items.append(it)
            k = it.last + 1
        return items
    finally:
        rl._QUAL.clear()
        rl._QUAL |= old


_ITEM_START = {"pub", "fn", "proof", "spec", "exec", "open", "closed", "impl", "struct", "enum", "mod", "use", "const", "static", "type",
               "trait", "broadcast", "uninterp", "unsafe", "extern", "tracked", "ghost", "axiom", "global", "assume_specification", "verus", "macro_rules"}


def _fix_fn_body(toks, it, hi):
    """In Verus text a `{` inside requires/ensures (patterns, block expressions) may precede the body: the body is the brace
    group that is followed by the next item (or the end of the enclosing block)."""
    k = it.body_open
    while k >= 0:
        c = rl.match_close(toks, k)
        nxt = rl._next_code(toks, c + 1, hi)
        if nxt is None or toks[nxt].text in ("}", "#") or (toks[nxt].kind == rl.IDENT and toks[nxt].text in _ITEM_START):
            it.body_open, it.last = k, c
            return c
        # not the body: look for the next top-level `{`
        j = c + 1
        k = -1
        while j < hi:
            t = toks[j]
            if t.kind == rl.PUNCT and t.text in ("(", "["):
                j = rl.match_close(toks, j) + 1
                continue
            if t.kind == rl.PUNCT and t.text == "{":
                k = j
                break
            j += 1
    return it.last


def _collect(toks, items, prefix, res):
    for it in items:
        if it.kind == "fn":
            quals = [t.text for t in toks[it.head:it.body_open if it.body_open >= 0 else it.last] if t.kind == rl.IDENT]
            fnpos = quals.index("fn") if "fn" in quals else 0
            pre = quals[:fnpos]
            mode = "spec" if "spec" in pre else ("proof" if "proof" in pre else "exec")
            res.append(dict(first=toks[it.first].line, last=toks[it.last].line, name=prefix + it.name, mode=mode,
                            body_open=it.body_open, last_tok=it.last, attrs=it.attrs, head=it.head))
        elif it.kind in ("impl", "mod", "trait"):
            from .weave import _impl_self_type
            p = prefix
            if it.kind == "impl":
                p = prefix + _impl_self_type(it.name).split(" as ")[0] + "::"
            elif it.kind == "mod":
                p = prefix + it.name + "::"
            _collect(toks, it.children, p, res)


def make_canary(text, which):
    """Return (canary_text, {line_no: fn_name}).  which in {"start","end"}.
    Every non-spec, non-external fn with a body gets `assert(false)`; it must FAIL."""
    toks, fns = fn_spans(text)
    edits = []  # (pos, insert_text)
    names = []
    for f in fns:
        if f["mode"] == "spec" or f["body_open"] < 0:
            continue
        if any("external_body" in a or "verifier::external" in a for a in f["attrs"]):
            continue
        if f["name"].split("::")[-1].startswith("kf_"):
            continue   # known-finding wrappers fail by design; with one error reported per function the canary would be masked
        body_txt = rl.text_of(toks, f["body_open"], f["last_tok"])
        if "vx:nocanary-all" in body_txt or ("vx:nocanary-" + which) in body_txt:
            continue
        o = toks[f["body_open"]]
        c = toks[f["last_tok"]]
        tagline = " assert(false); /*vx-canary:%s*/ " % f["name"]
        # `hide(..)` / `reveal(..)` headers must stay first in a body: put the canary after them
        ins = o.pos + 1
        mhead = re.match(r"(\s*(?:hide|reveal|reveal_with_fuel)\s*\([^;]*\)\s*;)+", text[ins:])
        if mhead:
            ins += mhead.end()
        if which == "start":
            edits.append((ins, tagline))
        else:
            edits.append((ins, " let vx_canary_r = {"))
            edits.append((c.pos, "};" + tagline + "vx_canary_r "))
        names.append(f["name"])
    edits = [(pos, k, ins) for k, (pos, ins) in enumerate(edits)]
    edits.sort(key=lambda e: (e[0], e[1]), reverse=True)
    out = text
    for pos, _k, ins in edits:
        out = out[:pos] + ins + out[pos:]
    # map canary lines
    linemap = {}
    for i, line in enumerate(out.split("\n"), 1):
        for m in re.finditer(r"/\*vx-canary:([^*]+)\*/", line):
            linemap.setdefault(i, []).append(m.group(1))
    return out, linemap, names


def _canary_cache_key(text):
    import hashlib
    return hashlib.sha256(("verus-0.2026.09.13\n" + text).encode()).hexdigest()


def _canary_cache_get(outdir, key):
    """Vacuity (canary) runs are memoised by the hash of the generated canary file: the file is still regenerated from
    /repo on every run; only the solver run on a byte-identical file is reused. The deciding run is never cached."""
    p = os.path.join(outdir, "cache", key + ".stderr")
    try:
        return open(p).read()
    except OSError:
        return None


def _canary_cache_put(outdir, key, stderr_text):
    os.makedirs(os.path.join(outdir, "cache"), exist_ok=True)
    with open(os.path.join(outdir, "cache", key + ".stderr"), "w") as f:
        f.write(stderr_text)


def scan_trusted(text):
    """Assumption scan of the generated file (DESIGN 2.6)."""
    res = []
    lines = text.split("\n")
    for i, l in enumerate(lines):
        s = l.strip()
        if s.startswith("//"):
            continue
        for kw in ("external_body", "assume_specification", "#[verifier::external", "exec_allows_no_decreases_clause",
                   "admit(", "assume(", "external_fn_specification", "external_type_specification", "#[verifier::truncate]"):
            if kw in s:
                # name the item: look ahead for fn/struct name
                ctx = ""
                for j in range(i, min(i + 6, len(lines))):
                    m = re.search(r"\b(fn|struct|enum)\s+([A-Za-z_][A-Za-z0-9_]*)", lines[j])
                    if m:
                        ctx = m.group(2)
                        break
                    m = re.search(r"assume_specification.*\[\s*([^\]]+)\]", lines[j])
                    if m:
                        ctx = m.group(1).strip()
                        break
                res.append("%s: %s (generated line %d)" % (kw.strip("#[("), ctx, i + 1))
                break
    return res


def count_air_obligations(logdir):
    """Count proof obligations (`(location` nodes) per function in the final AIR."""
    per_fn = {}
    if not os.path.isdir(logdir):
        return per_fn
    for fn in os.listdir(logdir):
        if not fn.endswith("final.air"):
            continue
        cur = None
        with open(os.path.join(logdir, fn), errors="replace") as f:
            for line in f:
                if line.startswith(";; "):
                    m = re.match(r";; (Function-Def|Function-Check-Decrease|Spec-Termination|Function-Recommend|Function-Decl-Check\S*|Function-Expand-Errors) (\S+)", line)
                    if m and m.group(1) != "Function-Recommend":
                        cur = m.group(2)
                        per_fn.setdefault(cur, 0)
                    elif line.startswith(";; Function-") or line.startswith(";; Spec-") or line.startswith(";; Trait") or line.startswith(";; Broadcast"):
                        cur = None
                elif cur is not None:
                    per_fn[cur] += line.count("(location")
    return per_fn


class VerusUnit:
    def __init__(self, verif_root, repo, unit, config=None, variant=""):
        self.root = verif_root
        self.repo = repo
        self.unit = unit
        self.config = config or {}
        self.variant = variant
        self.spec = os.path.join(verif_root, "specs", unit + ".vx")
        self.outdir = os.path.join(verif_root, "out")
        os.makedirs(self.outdir, exist_ok=True)

    def stem(self):
        return self.unit + ("_" + self.variant if self.variant else "")

    def run(self, canaries=True, rlimit=None, timeout=900, threads=16):
        """Runs the unit; when the verifier reports a method the unit does not name (a refactoring introduced a helper),
        the helper is extracted automatically and the unit is run again (at most 3 rounds)."""
        auto, opaque, inline = set(), set(), set()
        res = None
        for _round in range(6):
            res = self._run_once(canaries, rlimit, timeout, threads, auto, opaque, inline)
            missing, bad_helpers = set(), set()
            for te in res.tool_errors:
                m = re.search(r"no (?:method|function or associated item) named `(\w+)` found", te.get("message", ""))
                if m:
                    missing.add(m.group(1))
                for fnq in te.get("fns", []):
                    if fnq in getattr(self.weaver, "auto_helpers", []):
                        bad_helpers.add(fnq.split("::")[-1])
            missing -= auto
            bad_helpers -= opaque
            if not missing and not bad_helpers:
                # helpers that ended up without a contract: replace their statement-position calls by their bodies (R37) and run again
                cl = set(getattr(self.weaver, "auto_contractless", [])) - inline if getattr(self, "weaver", None) else set()
                if cl and res.status != "undecided":
                    inline |= cl
                    continue
                return res
            auto |= missing
            opaque |= bad_helpers
        return res

    def _run_once(self, canaries, rlimit, timeout, threads, auto, opaque=(), inline=()):
        t0 = time.time()
        res = UnitResult(self.unit, dict(self.config), os.path.join(self.outdir, self.stem() + ".rs"))
        try:
            w = Weaver(self.repo, self.spec, self.config, auto_request=auto, auto_opaque=opaque, auto_inline=inline).run()
        except AnchorLoss as e:
            res.status = "undecided"
            res.undecided_reason = "anchor loss: %s" % e
            return res
        except (rl.LexError, IndexError, ValueError) as e:
            res.status = "undecided"
            res.undecided_reason = "extraction error: %r" % e
            return res
        text = w.text()
        self.weaver = w
        res.fn_infos = w.fns
        res.dropped = w.dropped + ["auto-extracted helper: %s" % h for h in w.auto_helpers] + ["R37 %s" % x for x in w.inlined]
        res.rewrites = w.rewrite_log
        res.clause_labels = sorted({(l.fn, l.label) for l in w.out if l.label})
        res.label_tags = {(l.fn, l.label): tuple(l.tags) for l in w.out if l.label}
        with open(res.gen_path, "w") as f:
            f.write(text)
        with open(res.gen_path + ".map.json", "w") as f:
            json.dump([[l.okind, l.ofile, l.oline, l.fn, l.label, list(l.tags)] for l in w.out], f)
        res.trusted = scan_trusted(text)
        forbidden = [t for t in res.trusted if t.startswith("admit") or t.startswith("assume:") or t.startswith("assume ")]
        for l in w.out:
            if l.okind == "spec" and re.search(r"\b(admit|assume)\s*\(", l.text) and not l.text.strip().startswith("//"):
                res.status = "undecided"
                res.undecided_reason = "assume/admit found in spec text (forbidden): %s:%d" % (l.ofile, l.oline)
                return res
        logdir = os.path.join(self.outdir, self.stem() + ".log")
        shutil.rmtree(logdir, ignore_errors=True)
        base = [VERUS, None, "--triggers-mode", "silent", "--error-format=json", "--num-threads", str(threads)]
        if rlimit:
            base += ["--rlimit", str(rlimit)]
        jobs = {}
        main_cmd = list(base)
        main_cmd[1] = os.path.basename(res.gen_path)
        main_cmd += ["--output-json", "--time", "--multiple-errors", "8", "--log", "air-final", "--log-dir", logdir]
        res.cmd = " ".join(main_cmd)
        can = {}
        if canaries:
            for which in ("start", "end"):
                ctext, cmap, names = make_canary(text, which)
                cpath = os.path.join(self.outdir, "%s__canary_%s.rs" % (self.stem(), which))
                with open(cpath, "w") as f:
                    f.write(ctext)
                cmd = list(base)
                if "--rlimit" in cmd:            # the canary run sets its own (small) resource limit; the option may be given once only
                    k_ = cmd.index("--rlimit")
                    del cmd[k_:k_ + 2]
                cmd[1] = os.path.basename(cpath)
                # a canary only has to be *unprovable*: a small resource limit is enough (running out of it also counts)
                cmd += ["--multiple-errors", "0", "--rlimit", "3"]
                can[which] = (cmd, cmap, names, _canary_cache_key(ctext))
        with ThreadPoolExecutor(max_workers=3) as ex:
            fut_main = ex.submit(_run, main_cmd, self.outdir, timeout)
            fut_can = {}
            can_out = {}
            for which, c in can.items():
                cached = _canary_cache_get(self.outdir, c[3])
                if cached is not None:
                    can_out[which] = (0, "", cached, 0.0)
                else:
                    fut_can[which] = ex.submit(_run, c[0], self.outdir, timeout)
            rc, out, err, wall = fut_main.result()
            for which, f in fut_can.items():
                can_out[which] = f.result()
                _canary_cache_put(self.outdir, can[which][3], can_out[which][2])
        res.raw_stderr = err
        self._classify(res, w, rc, out, err, logdir)
        for which, (crc, cout, cerr, cwall) in can_out.items():
            cmd, cmap, names, _key = can[which]
            bad, tool = self._canary_bad(cmd, cmap, names, cerr)
            if bad and not tool:
                # a canary that seems to verify is re-run once, uncached: only functions that show no failure in both runs count
                # (guards against a transient solver / scheduling effect being reported as vacuity)
                crc2, cout2, cerr2, _w2 = _run(cmd, self.outdir, timeout)
                bad2, tool2 = self._canary_bad(cmd, cmap, names, cerr2)
                bad = [n for n in bad if n in bad2]
                tool = tool2
                _canary_cache_put(self.outdir, _key, cerr2)
            res.canaries[which] = dict(count=len(names), failed_as_expected=len(names) - len(bad), not_failing=bad, tool_errors=tool[:3])
        res.wall_s = time.time() - t0
        return res

    def _canary_bad(self, cmd, cmap, names, cerr):
        if True:
            hit = set()
            if not [d for d in parse_diags(cerr) if d.get("level") == "error"]:
                # no diagnostics at all: the verifier did not run (bad command line, crash) - a tool problem, not vacuity
                return [], ["canary run produced no diagnostics: %s" % (cerr.strip().split("\n")[-1][:200] if cerr.strip() else "empty output")]
            try:
                _t, cfns = fn_spans(open(os.path.join(self.outdir, cmd[1])).read())
            except OSError:
                cfns = []
            tool = []
            for d in parse_diags(cerr):
                if d.get("level") != "error":
                    continue
                msg_ = d.get("message", "")
                if msg_.startswith("aborting due to"):
                    continue
                if RLIMIT_RE.search(msg_):
                    # the solver gave up before proving `false`: the canary was not provable
                    for sp in d.get("spans", []):
                        for fi in cfns:
                            if fi["first"] <= sp["line_start"] <= fi["last"]:
                                hit.add(fi["name"])
                    continue
                if not any(pat in msg_ for pat, _k in OBLIGATION_MSG):
                    tool.append(msg_[:200])
                for sp in d.get("spans", []):
                    for ln in range(sp["line_start"], sp["line_end"] + 1):
                        for nm in cmap.get(ln, []):
                            if "assertion failed" in d.get("message", ""):
                                hit.add(nm)
            bad = [n for n in names if n not in hit]
            if tool:
                bad = []   # the canary file did not get as far as verification: reported as a tool error, not as vacuity
            return bad, tool

    def _classify(self, res, w, rc, out, err, logdir):
        # timing / per-function results
        j = None
        try:
            j = json.loads(out[out.index("{"):]) if "{" in out else None
        except ValueError:
            j = None
        if j:
            vr = j.get("verification-results", {})
            res.verified = vr.get("verified", 0)
            res.errors = vr.get("errors", 0)
            tm = j.get("times-ms", {})
            res.total_ms = tm.get("total", 0)
            smt = tm.get("smt", {})
            res.smt_ms = smt.get("smt-run", 0)
            for mod in smt.get("smt-run-module-times", []):
                for fb in mod.get("function-breakdown", []):
                    res.functions[fb["function"]] = dict(time_ms=fb.get("time", 0), rlimit=fb.get("rlimit", 0),
                                                         success=fb.get("success", False), mode=fb.get("mode:", ""))
        res.obligations_by_fn = count_air_obligations(logdir)
        gen_text_lines = [l for l in w.out]
        toks, fns = fn_spans(w.text())
        for f in fns:
            if f['name'] not in w.fns:
                vt = self._verbatim_tags(w, fns, f['name'])
                if vt:
                    res.verbatim_tags[f['name']] = vt
        diags = parse_diags(err)

        def owner(line_no):
            best = None
            for f in fns:
                if f["first"] <= line_no <= f["last"]:
                    if best is None or f["first"] >= best["first"]:
                        best = f
            return best["name"] if best else ""

        for d in diags:
            lvl = d.get("level")
            msg = d.get("message", "")
            if lvl != "error":
                continue
            if msg.startswith("aborting due to"):
                continue
            kind = None
            matched = False
            for pat, k in OBLIGATION_MSG:
                if pat in msg:
                    kind, matched = k, True
                    break
            spans = d.get("spans", [])
            if not matched or not spans:
                # rlimit / unsupported / type error: tool problem
                res.tool_errors.append(dict(message=msg, rendered=d.get("rendered", "")[:2000],
                                            fns=sorted({owner(sp["line_start"]) for sp in spans if owner(sp["line_start"])})))
                continue
            if kind is None:
                continue
            # locate
            prim = [s for s in spans if s.get("is_primary")] or spans
            pl = prim[0]["line_start"]
            fn_name = owner(pl)
            label, tags, wheres = "", (), []
            cands = []
            for s in spans:
                ln = s["line_start"]
                if 1 <= ln <= len(w.out):
                    L = w.out[ln - 1]
                    wheres.append("%s:%d%s" % (L.ofile, L.oline, " (%s)" % s.get("label") if s.get("label") else ""))
                    for q in range(s["line_start"], min(s["line_end"], len(w.out)) + 1):
                        LL = w.out[q - 1]
                        if LL.label:
                            # spans that point at a clause ("failed this postcondition", "failed precondition", invariant) win
                            pri = 0 if re.search(r"failed|invariant", s.get("label") or "") else 1
                            cands.append((pri, q, LL.label, LL.tags))
            if cands:
                cands.sort()
                label, tags = cands[0][2], cands[0][3]
            Lp = w.out[pl - 1] if 1 <= pl <= len(w.out) else None
            # tags: clause tags if labelled, else tags of the owning extracted fn, else tags declared by a `// vx:tags` line in a verbatim fn
            if not tags:
                info = w.fns.get(fn_name)
                if info:
                    tags = info.tags
                else:
                    tags = self._verbatim_tags(w, fns, fn_name)
            if kind == "ensures":
                name = "%s::ensures[%s]" % (fn_name, label or "?")
            elif kind == "pre":
                name = ("%s::pre[%s]" % (fn_name, label)) if label else "%s::pre[?]@%s" % (fn_name, (Lp.ofile + ":" + str(Lp.oline)) if Lp else "?")
            elif kind.startswith("loop-inv"):
                name = "%s::%s[%s]" % (fn_name, kind, label or "?")
            else:
                name = "%s::%s@%s" % (fn_name, kind, (Lp.ofile + ":" + str(Lp.oline)) if Lp else "?")
            is_hint = bool(Lp is not None and str(Lp.ofile).startswith("specs/") and kind in ("assert", "pre"))
            res.failures.append(Failure(fn_name, kind, label, tuple(tags), msg, "; ".join(wheres), name, d.get("rendered", "")[:3000], is_hint))
        # A proof script (loop invariants, anchored hints, the order of lemma calls) is tied to the control structure of the function
        # it was written for. When the function's control skeleton differs from the one recorded on the unchanged tree
        # (specs/baseline_skeletons.json), an unprovable obligation says nothing yet: the code may have been restructured without
        # any change of behaviour. Such failures are not a verdict; the witness searchers decide.
        try:
            base_sk = json.load(open(os.path.join(self.root, "specs", "baseline_skeletons.json")))["skeletons"]
        except (OSError, ValueError, KeyError):
            base_sk = {}
        key_ = self.unit + ("+memchr" if self.config.get("feature.memchr") else "")
        bsk = base_sk.get(key_, {})
        restructured = sorted(q for q, i in w.fns.items() if q in bsk and i.skeleton != bsk[q])
        new_fns = sorted(q for q in w.fns if bsk and q not in bsk)
        res.restructured = restructured
        for fl in res.failures:
            if fl.fn in restructured:
                fl.hint = True
                fl.message += " [the control structure of %s differs from the tree the proof was written for]" % fl.fn
        # A function that calls an auto-extracted helper for which no contract exists cannot be decided modularly: the caller's
        # obligations fail for lack of information about the helper whether or not the code is right. Such failures are not a
        # verdict (same treatment as a failed proof hint: undecided, the witness searchers get their chance).
        contractless = sorted(set(getattr(w, "auto_contractless", [])))
        if contractless and res.failures:
            lines_ = w.text().split("\n")
            for fl in res.failures:
                span = [f for f in fns if f["name"] == fl.fn]
                if not span:
                    continue
                body_ = "\n".join(lines_[span[0]["first"] - 1:span[0]["last"]])
                if any(re.search(r"\b%s\s*\(" % re.escape(h), body_) for h in contractless if h != fl.fn.split("::")[-1]):
                    fl.hint = True
                    fl.message += " [calls an auto-extracted helper without a contract: %s]" % ", ".join(contractless)
        if res.tool_errors:
            res.status = "undecided"
            res.undecided_reason = "verus reported %d non-obligation error(s): %s" % (
                len(res.tool_errors), res.tool_errors[0]["message"][:300])
        elif rc == -9:
            res.status = "undecided"
            res.undecided_reason = "verus timeout"
        elif res.failures:
            res.status = "failed"
        elif rc != 0 or j is None:
            res.status = "undecided"
            res.undecided_reason = "verus exit %s without diagnostics: %s" % (rc, err[-500:])
        else:
            # rlimit notes arrive as failures in function-breakdown without a diagnostic
            bad = [k for k, v in res.functions.items() if not v["success"]]
            if bad:
                res.status = "undecided"
                res.undecided_reason = "functions not verified without diagnostic: %s" % bad[:5]

    def _verbatim_tags(self, w, fns, fn_name):
        for f in fns:
            if f["name"] == fn_name:
                for ln in range(max(1, f["first"] - 3), f["last"] + 1):
                    m = re.search(r"//\s*vx:tags\s+((?:C\d+\s*)+)", w.out[ln - 1].text)
                    if m:
                        return tuple(m.group(1).split())
        # unit-level default
        for L in w.out[:40]:
            m = re.search(r"//\s*vx:default-tags\s+((?:C\d+\s*)+)", L.text)
            if m:
                return tuple(m.group(1).split())
        return ()
