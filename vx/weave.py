"""Extractor + weaver: builds one Verus file per unit from /repo's current
sources and the contracts in specs/<unit>.vx.

Spec file format: plain Verus text, copied verbatim, interleaved with
directive lines starting with `//@`:

  //@ unit <name>
  //@ source <alias> <path relative to repo root>
  //@ config <key>=<bool> ...            cfg evaluation (feature.memchr=true debug_assertions=true)
  //@ struct <alias> <Name> [derive=A,B] [ghost=<field>:<Type>]...
  //@ enum <alias> <Name> [derive=A,B]
  //@ const <alias> <NAME>
  //@ impl <alias> <normalised impl header>     e.g.  impl<T:Clone>Stack<T>
  //@ endimpl
  //@ free <alias>                              following `fn` directives are free functions of that file
  //@ fn <name> [ret=<r>] [tags=C03,C12] [attr=<text>]... [rw=<Rule>:<count>]...
  //@      <raw lines>                          contract text (requires/ensures/decreases)
  //@ at before|after <ordinal|last> `<code>`   then raw lines: inserted text
  //@ at start | at end
  //@ loop <k>                                  then raw lines: invariants/decreases for the k-th loop
  //@ endfn

A raw contract line may end in `// #<label> [C03 C12 ...]`: the label (and
property tags) of the clause(s) on that line.

Everything that can go wrong here (item not found, anchor not found, rewrite
count mismatch, unknown attribute) raises AnchorLoss -> exit 2 (UNDECIDED).
"""
import os
import re
import shlex
from dataclasses import dataclass, field

from . import rustlex as rl
from .rewrites import apply_rewrites, RULES, FREE as FREE_RULES


class AnchorLoss(Exception):
    pass


# attributes the extractor silently drops from extracted items
DROP_ATTR_RE = re.compile(
    r"^#\[(inline(\(.*\))?|allow\(.*\)|doc.*|deprecated.*|must_use.*|cold|track_caller|non_exhaustive|rustfmt::skip)\]$")
DERIVE_RE = re.compile(r"^#\[derive\((.*)\)\]$")
CFG_RE = re.compile(r"^#\[cfg\((.*)\)\]$")


@dataclass
class Line:
    text: str
    okind: str      # "spec" | "src" | "gen"
    ofile: str
    oline: int
    fn: str = ""        # owning extracted function (qualified) if any
    label: str = ""     # clause label
    tags: tuple = ()    # property tags of the clause


@dataclass
class FnInfo:
    qname: str
    tags: tuple
    src_file: str
    src_line: int
    rewrites: dict = field(default_factory=dict)
    external_body: bool = False
    skeleton: str = ""     # control keywords of the source body, in order (see control_skeleton)


SKELETON_KW = ("if", "else", "match", "loop", "while", "for", "return", "break", "continue")


def control_skeleton(body_text):
    """The control structure a proof script is tied to: the sequence of control keywords of the function body as written in
    /repo (before any rewrite). Loop invariants, anchors and hints are attached to this structure; conditions, operands and
    straight-line statements can change without changing it."""
    return " ".join(t.text for t in rl.tokenize(body_text) if t.kind == rl.IDENT and t.text in SKELETON_KW)


class Source:
    def __init__(self, repo, rel):
        self.rel = rel
        self.path = os.path.join(repo, rel)
        try:
            self.text = open(self.path, encoding="utf-8").read()
        except OSError as e:
            raise AnchorLoss("source file missing: %s (%s)" % (rel, e))
        try:
            self.toks = rl.tokenize(self.text)
            self.items = rl.find_items(self.toks, 0, len(self.toks))
        except rl.LexError as e:
            raise AnchorLoss("cannot tokenise %s: %s" % (rel, e))

    def find(self, kind, name, items=None):
        items = self.items if items is None else items
        res = [it for it in items if it.kind == kind and it.name == name and not _is_cfg_test(it)]
        return res

    def find_impl(self, header):
        want = rl.norm(header)
        res = [it for it in self.items if it.kind == "impl" and it.name == want]
        return res


def _is_cfg_test(it):
    return any(a == "#[cfg(test)]" for a in it.attrs)


def eval_cfg(pred: str, config: dict):
    """Evaluate a cfg predicate (normalised text) under config; raise on unknown atoms."""
    pred = pred.strip()
    m = re.match(r"^(not|all|any)\((.*)\)$", pred)
    if m:
        parts = _split_top(m.group(2))
        vals = [eval_cfg(p, config) for p in parts if p.strip()]
        if m.group(1) == "not":
            return not vals[0]
        if m.group(1) == "all":
            return all(vals)
        return any(vals)
    m = re.match(r'^feature="([^"]+)"$', pred)
    if m:
        key = "feature." + m.group(1)
        if key not in config:
            raise AnchorLoss("cfg feature %r not in unit config" % m.group(1))
        return config[key]
    if pred in config:
        return config[pred]
    raise AnchorLoss("cfg predicate %r not in unit config" % pred)


def _split_top(s):
    out, depth, cur = [], 0, ""
    for ch in s:
        if ch == '(':
            depth += 1
        elif ch == ')':
            depth -= 1
        if ch == ',' and depth == 0:
            out.append(cur); cur = ""
        else:
            cur += ch
    out.append(cur)
    return out


class Weaver:
    def __init__(self, repo, spec_path, config_override=None, auto_request=None, auto_opaque=None, auto_inline=None):
        self.repo = repo
        self.spec_path = spec_path
        self.cur_path = spec_path
        self.sources = {}
        self.config = {}
        self.config_override = config_override or {}
        self.out = []          # list[Line]
        self.fns = {}          # qname -> FnInfo
        self.unit = os.path.splitext(os.path.basename(spec_path))[0]
        self.ctx_alias = None
        self.ctx_impl = None   # Item
        self.ctx_impl_is_trait = False
        self.ctx_type = ""     # "Stack" for qualified names
        self.dropped = []      # what extraction dropped (for evidence)
        self.rewrite_log = []
        self.auto_request = set(auto_request or ())   # method names the verifier reported missing: extract them automatically
        self.auto_inline = set(auto_inline or ())     # contract-less helpers whose statement-position calls are replaced by their body (R37)
        self.auto_opaque = set(auto_opaque or ())     # helpers whose body is outside the Verus subset: kept opaque (no contract, body not verified)

    # ---------------------------------------------------------------- util
    def emit_spec(self, text, lineno, fn="", label="", tags=()):
        self.out.append(Line(text, "spec", os.path.relpath(self.cur_path, os.path.dirname(os.path.dirname(self.spec_path))), lineno, fn, label, tags))

    def emit_src(self, text, alias, lineno, fn=""):
        self.out.append(Line(text, "src", self.sources[alias].rel, lineno, fn))

    def src(self, alias):
        if alias not in self.sources:
            raise AnchorLoss("unknown source alias %r" % alias)
        return self.sources[alias]

    # ---------------------------------------------------------------- main
    def run(self):
        self.addtags = ()
        self.declared = {}      # normalised impl header -> set of fn names named by directives anywhere in the unit
        self.auto_emitted = set()
        self.block_fns = []     # (name, tags, body text) of fns extracted in the current impl block
        self.auto_helpers = []
        self.auto_contractless = []
        self.inlined = []
        self._prescan(self.spec_path)
        # the unit's configuration is needed before the first `//@ ifcfg`
        for l in open(self.spec_path, encoding="utf-8").read().split("\n"):
            if l.strip().startswith("//@ config "):
                for kv in l.strip()[len("//@ config "):].split():
                    k, v = kv.split("=")
                    self.config[k] = (v == "true")
        self.config.update(self.config_override)
        self.process(self.spec_path)
        return self

    def _apply_ifcfg(self, lines):
        """`//@ ifcfg K` / `//@ ifnot K` ... `//@ endif`: lines of inactive regions are blanked (line numbers preserved)."""
        out, stack = [], []
        for l in lines:
            t = l.strip()
            if t.startswith("//@ ifcfg ") or t.startswith("//@ ifnot "):
                key = t.split()[2]
                val = bool(self.config.get(key, False))
                stack.append(val if t.startswith("//@ ifcfg ") else not val)
                out.append("")
            elif t == "//@ endif":
                if stack:
                    stack.pop()
                out.append("")
            else:
                out.append(l if all(stack) else "")
        return out

    def _prescan(self, path):
        try:
            lines = open(path, encoding="utf-8").read().split("\n")
        except OSError:
            return
        cur = None
        for l in lines:
            t = l.strip()
            if t.startswith("//@ include "):
                self._prescan(os.path.join(os.path.dirname(self.spec_path), t.split()[2]))
            elif t.startswith("//@ impl "):
                hdr = t[len("//@ impl "):].split(None, 1)[1]
                if " =as=> " in hdr:
                    hdr = hdr.split(" =as=> ")[0]
                cur = _impl_self_type(rl.norm(hdr)).split(" as ")[0]
            elif t.startswith("//@ endimpl") or t.startswith("//@ free"):
                cur = None
            elif t.startswith("//@ fn ") and cur is not None:
                self.declared.setdefault(cur, set()).add(t.split()[2])

    def process(self, path):
        prev_lines, prev_path = getattr(self, "spec_lines", None), self.cur_path
        self.cur_path = path
        try:
            L = open(path, encoding="utf-8").read().split("\n")
        except OSError as e:
            raise AnchorLoss("spec include missing: %s" % e)
        L = self._apply_ifcfg(L)
        self.spec_lines = L
        i = 0
        while i < len(L):
            line = L[i]
            s = line.strip()
            if not s.startswith("//@"):
                lab, ltags = _parse_label(line)
                self.emit_spec(line, i + 1, "", lab, ltags)
                i += 1
                continue
            d = s[3:].strip()
            parts = d.split(None, 1)
            cmd = parts[0] if parts else ""
            arg = parts[1] if len(parts) > 1 else ""
            if cmd == "unit":
                self.unit = arg.strip()
            elif cmd == "include":
                parts2 = arg.split()
                saved_add = self.addtags
                for p2 in parts2[1:]:
                    if p2.startswith("addtags="):
                        self.addtags = tuple(self.addtags) + tuple(x for x in p2[8:].split(",") if x)
                self.process(os.path.join(os.path.dirname(self.spec_path), parts2[0]))
                self.addtags = saved_add
                self.spec_lines = L
                self.cur_path = path
            elif cmd == "source":
                alias, rel = arg.split()
                self.sources[alias] = Source(self.repo, rel)
            elif cmd == "config":
                for kv in arg.split():
                    k, v = kv.split("=")
                    self.config[k] = (v == "true")
                self.config.update(self.config_override)
            elif cmd in ("struct", "enum"):
                self.do_adt(cmd, arg, i + 1)
            elif cmd == "const":
                self.do_const(arg, i + 1)
            elif cmd == "impl":
                alias, header = arg.split(None, 1)
                as_header = None
                if " =as=> " in header:
                    # R19: a trait impl is verified as an inherent impl (Verus forbids `requires` on trait-method impls)
                    header, as_header = header.split(" =as=> ", 1)
                srcf = self.src(alias)
                found = srcf.find_impl(header)
                if len(found) != 1:
                    raise AnchorLoss("%s: impl header %r found %d times" % (srcf.rel, header, len(found)))
                self.ctx_alias, self.ctx_impl = alias, found[0]
                hdr_text = rl.text_of(srcf.toks, found[0].head, found[0].body_open)
                self.ctx_type = _impl_self_type(found[0].name)
                self.ctx_impl_is_trait = " as " in self.ctx_type
                if as_header is not None:
                    self.dropped.append("trait impl `%s` verified as inherent impl `%s`" % (found[0].name, rl.norm(as_header)))
                    self.ctx_type = self.ctx_type.split(" as ")[0]
                    self.ctx_impl_is_trait = False
                    hdr_text = as_header.strip() + " {"
                self.emit_src(hdr_text, alias, srcf.toks[found[0].head].line)
            elif cmd == "endimpl":
                self.emit_auto_helpers(i + 1)
                self.emit_spec("}", i + 1)
                self.ctx_impl = None
                self.ctx_type = ""
                self.block_fns = []
            elif cmd == "free":
                fa = arg.split()
                self.ctx_alias, self.ctx_impl, self.ctx_type = fa[0], None, ""
                for x in fa[1:]:
                    if x.startswith("mod="):
                        self.ctx_type = x[4:]   # qualified name prefix of free functions emitted inside `mod <name> { .. }`
                self.ctx_impl_is_trait = False
            elif cmd == "fn":
                j = i + 1
                block = []
                while j < len(L) and L[j].strip() != "//@ endfn":
                    block.append((j + 1, L[j]))
                    j += 1
                if j >= len(L):
                    raise AnchorLoss("spec: fn directive at line %d without endfn" % (i + 1))
                self.do_fn(arg, block, i + 1)
                i = j
            else:
                raise AnchorLoss("spec: unknown directive %r at line %d" % (cmd, i + 1))
            i += 1
        self.cur_path = prev_path

    # ---------------------------------------------------------------- ADTs
    def do_adt(self, kind, arg, lineno):
        parts = shlex.split(arg)
        alias, name = parts[0], parts[1]
        keep_derive, ghosts, extra_attrs = [], [], []
        for p in parts[2:]:
            if p.startswith("derive="):
                keep_derive = [x for x in p[7:].split(",") if x]
            elif p.startswith("ghost="):
                ghosts.append(p[6:])
            elif p.startswith("attr="):
                extra_attrs.append(p[5:])
            else:
                raise AnchorLoss("spec line %d: bad option %r" % (lineno, p))
        srcf = self.src(alias)
        found = srcf.find(kind, name)
        if len(found) != 1:
            raise AnchorLoss("%s: %s %s found %d times" % (srcf.rel, kind, name, len(found)))
        it = found[0]
        toks = srcf.toks
        for a in it.attrs:
            m = DERIVE_RE.match(a)
            if m:
                have = [x.strip() for x in m.group(1).split(",") if x.strip()]
                kept = [x for x in have if x in keep_derive]
                self.dropped.append("%s %s: derive(%s) dropped" % (kind, name, ",".join(x for x in have if x not in kept)))
                if kept:
                    self.emit_spec("#[derive(%s)]" % ", ".join(kept), lineno)
            elif DROP_ATTR_RE.match(a):
                pass
            else:
                raise AnchorLoss("%s %s: unknown attribute %s" % (kind, name, a))
        for a in extra_attrs:
            self.emit_spec(a, lineno)
        line0 = toks[it.head].line
        if it.body_open < 0:
            # tuple/unit struct
            text = rl.text_of(toks, it.head, it.last)
            text = _widen_vis(text)
            self.emit_src(text, alias, line0)
            return
        header = rl.text_of(toks, it.head, it.body_open)
        header = _widen_vis(header)
        self.emit_src(header, alias, line0)
        # fields / variants, comments stripped
        fields = _split_fields(toks, it.body_open + 1, it.last)
        for (a, b) in fields:
            ftoks = [t for t in toks[a:b] if t.kind not in (rl.LCOM, rl.BCOM)]
            # strip attributes on fields
            txt = _strip_field_attrs(ftoks)
            if not txt.strip():
                continue
            if kind == "struct":
                txt = "pub " + re.sub(r"^\s*pub(\s*\([^)]*\))?\s+", "", txt.strip())
            self.emit_src("    " + txt.strip() + ",", alias, toks[a].line)
        for g in ghosts:
            self.emit_spec("    pub %s," % g, lineno)
        self.emit_spec("}", lineno)

    def do_const(self, arg, lineno):
        alias, name = arg.split()
        srcf = self.src(alias)
        found = srcf.find("const", name)
        pool = list(found)
        if not pool and self.ctx_impl is not None:
            pool = srcf.find("const", name, self.ctx_impl.children)
        if len(pool) != 1:
            raise AnchorLoss("%s: const %s found %d times" % (srcf.rel, name, len(pool)))
        it = pool[0]
        text = _widen_vis(rl.text_of(srcf.toks, it.head, it.last))
        self.emit_src(text, alias, srcf.toks[it.head].line)

    # ---------------------------------------------------------------- helpers the source introduced but the unit does not name
    def emit_auto_helpers(self, lineno):
        """A refactoring may move code into a new private method.  Any method that the verifier reports missing is looked up
        in the source impl blocks and extracted automatically; an expression-bodied one gets its own body as its
        postcondition (that is inlining), any other one is verified with no postcondition (callers learn nothing from it);
        one whose body is outside the Verus subset is kept opaque (external_body, no contract)."""
        if self.ctx_impl is None or not self.auto_request:
            return
        tags = ()
        for (_n, t, _b) in self.block_fns:
            tags = tuple(sorted(set(tags) | set(t)))
        todo = [h for h in sorted(self.auto_request) if not any(h == e[1] for e in self.auto_emitted)]
        if not todo:
            return
        # 1. helpers of the current impl block go into it
        cur_t = self.ctx_type.split(" as ")[0]
        here = {it.name: it for it in self.ctx_impl.children if it.kind == "fn" and not _is_cfg_test(it) and it.body_open >= 0}
        for h in todo:
            if h in here and h not in self.declared.get(cur_t, set()):
                self._emit_helper(self.ctx_alias, self.ctx_impl, cur_t, here[h], tags, lineno)
        # 2. helpers of other inherent impl blocks (of any loaded source) get an impl block of their own, after this one
        pending = []
        for alias, srcf in self.sources.items():
            for imp in srcf.items:
                if imp.kind != "impl" or _is_cfg_test(imp) or " as " in _impl_self_type(imp.name) or imp is self.ctx_impl:
                    continue
                t = _impl_self_type(imp.name)
                for it in imp.children:
                    if it.kind == "fn" and it.name in todo and it.body_open >= 0 and not any(it.name == e[1] for e in self.auto_emitted) \
                            and it.name not in self.declared.get(t, set()):
                        pending.append((alias, imp, t, it))
        if pending:
            self.emit_spec("}", lineno)   # close the current impl
            saved = (self.ctx_alias, self.ctx_impl, self.ctx_type, self.ctx_impl_is_trait)
            for k, (alias, imp, t, it) in enumerate(pending):
                srcf = self.sources[alias]
                self.ctx_alias, self.ctx_impl, self.ctx_type, self.ctx_impl_is_trait = alias, imp, t, False
                self.emit_src(rl.text_of(srcf.toks, imp.head, imp.body_open), alias, srcf.toks[imp.head].line)
                self._emit_helper(alias, imp, t, it, tags, lineno)
                if k < len(pending) - 1:
                    self.emit_spec("}", lineno)
            # the caller emits the final "}" (of the last helper impl)
            self.ctx_alias, self.ctx_impl, self.ctx_type, self.ctx_impl_is_trait = saved

    def _emit_helper(self, alias, imp, tname, it, tags, lineno):
        srcf = self.sources[alias]
        h = it.name
        btxt = strip_comments_keep_lines(rl.text_of(srcf.toks, it.body_open, it.last))
        inner = btxt.strip()[1:-1].strip()
        sig = rl.text_of(srcf.toks, it.head, it.body_open - 1)
        returns = "->" in sig
        block = []
        arg = h + ((" tags=" + ",".join(tags)) if tags else "")
        if (tname, h) in self.auto_opaque or h in self.auto_opaque:
            arg += " attr=#[verifier::external_body] stub"
            block.append((lineno, "        // auto-extracted helper kept opaque: its body is outside the Verus subset, nothing is assumed about it"))
        elif returns and ";" not in inner and not re.search(r"\b(let|loop|while|for|return)\b", inner):
            arg += " ret=r"
            spec_inner, _c = apply_rewrites(inner, only=FREE_RULES)      # std-definition rules also in the contract text (closures with patterns are not spec expressions)
            block.append((lineno, "        ensures r == (%s)   // #auto-%s (auto-extracted helper: its own body is its contract)" % (" ".join(spec_inner.split()), h)))
        else:
            # a helper with statements: verified on its own, but callers learn nothing from it (no postcondition is invented)
            self.auto_contractless.append(h)
        if (tname, h) in self.auto_opaque or h in self.auto_opaque:
            self.auto_contractless.append(h)
        self.auto_emitted.add((tname, h))
        self.auto_helpers.append("%s::%s" % (tname, h))
        saved = (self.ctx_alias, self.ctx_impl, self.ctx_type)
        self.ctx_alias, self.ctx_impl, self.ctx_type = alias, imp, tname
        self.do_fn(arg, block, lineno)
        self.ctx_alias, self.ctx_impl, self.ctx_type = saved

    def _find_helper(self, h):
        for alias, srcf in self.sources.items():
            for imp in srcf.items:
                if imp.kind != "impl" or _is_cfg_test(imp) or " as " in _impl_self_type(imp.name):
                    continue
                for it in imp.children:
                    if it.kind == "fn" and it.name == h and it.body_open >= 0 and not _is_cfg_test(it):
                        return srcf, it
        return None, None

    def inline_helpers(self, body, qname):
        """R37: a statement `RECV.h(ARGS);` that calls a private helper for which no contract exists is replaced by the helper's
        body (beta reduction): arguments are bound once, in order, to fresh names, then to the parameter names; `self` in the
        helper body becomes RECV (a place expression). Side conditions, checked here: the helper takes `&self` / `&mut self`,
        has no `return`, no `?`, does not call itself, its value is not used at the call site. Otherwise the call is left alone
        (and the caller stays undecidable modularly)."""
        for h in sorted(self.auto_inline):
            srcf, it = self._find_helper(h)
            if it is None:
                continue
            sig = strip_comments_keep_lines(rl.text_of(srcf.toks, it.head, it.body_open - 1))
            hb = strip_comments_keep_lines(rl.text_of(srcf.toks, it.body_open, it.last)).strip()
            m = re.search(r"\(\s*&\s*(?:'\w+\s+)?(?:mut\s+)?self\s*(?:,(.*))?\)\s*(?:->.*)?$", " ".join(sig.split()), re.S)
            if not m or re.search(r"\breturn\b|\?", hb) or re.search(r"\b%s\s*\(" % re.escape(h), hb):
                continue
            params = []
            ok = True
            for prm in [x for x in _split_top(m.group(1) or "") if x.strip()]:
                pm = re.match(r"^\s*(?:mut\s+)?(\w+)\s*:\s*(.+?)\s*$", prm, re.S)
                if not pm:
                    ok = False
                    break
                params.append((pm.group(1), pm.group(2)))
            if not ok:
                continue
            pat = re.compile(r"(?<![\w.])((?:self\s*\.\s*)?\w+(?:\s*\.\s*\w+)*?)\s*\.\s*%s\s*\(" % re.escape(h))
            pos = 0
            while True:
                cm = pat.search(body, pos)
                if not cm:
                    break
                close = _match_paren_txt(body, cm.end() - 1)
                rest = body[close + 1:] if close >= 0 else ""
                before = body[:cm.start()].rstrip()
                stmt_pos = (before == "" or before[-1] in ";{}") and rest.lstrip().startswith(";")
                if close < 0 or not stmt_pos:
                    pos = cm.end()
                    continue
                args = [a.strip() for a in _split_top(body[cm.end():close]) if a.strip()]
                if len(args) != len(params):
                    pos = cm.end()
                    continue
                recv = "".join(cm.group(1).split())
                btoks = rl.tokenize(hb)
                hb2 = "".join((recv if (t.kind == rl.IDENT and t.text == "self") else t.text) for t in btoks)
                binds = "".join("let vx_a%d: %s = %s; " % (k, params[k][1], a) for k, a in enumerate(args))
                binds += "".join("let %s = vx_a%d; " % (params[k][0], k) for k in range(len(args)))
                new = "{ %s%s }" % (binds, " ".join(hb2.split()))
                semi = close + 1 + (len(rest) - len(rest.lstrip())) + 1
                old = body[cm.start():semi]
                new = new + ("\n" * old.count("\n"))
                body = body[:cm.start()] + new + body[semi:]
                pos = cm.start() + len(new)
                self.inlined.append("%s: %s inlined" % (qname, h))
        return body

    # ---------------------------------------------------------------- fns
    def do_fn(self, arg, block, lineno):
        parts = shlex.split(arg)
        name = parts[0]
        ret, tags, attrs, rw_expect, as_name, drop_mut_self = None, (), [], {}, None, False
        stub = False
        subs = []
        for p in parts[1:]:
            if p.startswith("ret="):
                ret = p[4:]
            elif p.startswith("tags="):
                tags = tuple(x for x in p[5:].split(",") if x) + tuple(t for t in self.addtags if t not in p[5:].split(","))
            elif p.startswith("attr="):
                attrs.append(p[5:])
            elif p == "stub":
                stub = True
            elif p.startswith("sub="):
                a_, b_ = p[4:].split("=>", 1)
                subs.append((a_, b_))
            elif p.startswith("rw="):
                r, c = p[3:].split(":")
                for r1 in r.split("+"):
                    if r1 not in RULES:
                        raise AnchorLoss("spec line %d: unknown rewrite rule %s" % (lineno, r1))
                rw_expect[r] = None if c == "*" else int(c)   # "R2+R2b": the counts of the alternatives must sum to c; "*": any count
            else:
                raise AnchorLoss("spec line %d: bad option %r" % (lineno, p))
        srcf = self.src(self.ctx_alias)
        pool = self.ctx_impl.children if self.ctx_impl is not None else srcf.items
        found = [it for it in pool if it.kind == "fn" and it.name == name and not _is_cfg_test(it)]
        # resolve cfg-gated duplicates
        live = []
        for it in found:
            ok = True
            for a in it.attrs:
                m = CFG_RE.match(a)
                if m and not eval_cfg(m.group(1), self.config):
                    ok = False
            if ok:
                live.append(it)
        if len(live) != 1:
            raise AnchorLoss("%s: fn %s found %d times in %s" % (
                srcf.rel, name, len(live), self.ctx_impl.name if self.ctx_impl else "file scope"))
        it = live[0]
        toks = srcf.toks
        for a in it.attrs:
            if DROP_ATTR_RE.match(a) or CFG_RE.match(a):
                continue
            raise AnchorLoss("fn %s: unknown attribute %s" % (name, a))
        if it.body_open < 0:
            raise AnchorLoss("fn %s has no body" % name)
        qname = (self.ctx_type + "::" if self.ctx_type else "") + name
        line0 = toks[it.head].line
        info = FnInfo(qname, tags, srcf.rel, line0)
        info.external_body = any("external_body" in a for a in attrs)
        if qname in self.fns:
            raise AnchorLoss("fn %s extracted twice" % qname)
        self.fns[qname] = info

        # --- split the directive block
        contract, inserts, loops = [], [], {}
        cur = contract
        expanded = []
        for (ln, raw) in block:
            st_ = raw.strip()
            if st_.startswith("//@ include "):
                inc = os.path.join(os.path.dirname(self.spec_path), st_[len("//@ include "):].strip())
                try:
                    for k2, l2 in enumerate(open(inc, encoding="utf-8").read().rstrip("\n").split("\n")):
                        expanded.append((ln, l2))
                except OSError as e:
                    raise AnchorLoss("spec include missing: %s" % e)
            else:
                expanded.append((ln, raw))
        for (ln, raw) in expanded:
            s = raw.strip()
            if s.startswith("//@"):
                d = s[3:].strip()
                if d.startswith("at "):
                    cur = []
                    inserts.append((ln, d[3:].strip(), cur))
                elif d.startswith("loop "):
                    cur = []
                    loops[int(d[5:].strip())] = (ln, cur)
                else:
                    raise AnchorLoss("spec line %d: unknown fn sub-directive %r" % (ln, d))
            else:
                cur.append((ln, raw))

        # --- signature
        sig = rl.text_of(toks, it.head, it.body_open - 1)
        for (a_, b_) in subs:
            sig = sig.replace(a_, b_)
        # R34: a by-value `mut self` parameter is `self` plus `let mut vx_self = self;` (Verus rejects the `mut` binding mode on
        # a plain `self`; `mut self: Box<Self>` is accepted and left alone). The body's `self` tokens are renamed.
        mutself = bool(re.search(r"\(\s*mut\s+self\s*[,)]", sig))
        if mutself:
            sig = re.sub(r"\(\s*mut\s+self(\s*[,)])", r"(self\1", sig, count=1)
        sig = self.fix_signature(sig, ret, name)
        for a in attrs:
            self.emit_spec("    " + a, lineno, qname)
        for k, sl in enumerate(sig.rstrip().split("\n")):
            self.emit_src(sl, self.ctx_alias, line0 + k, qname)
        for (ln, raw) in contract:
            label, ltags = _parse_label(raw)
            self.emit_spec(raw, ln, qname, label, ltags or tags)

        # --- body
        body_first_line = toks[it.body_open].line
        body = rl.text_of(toks, it.body_open, it.last)
        body = strip_comments_keep_lines(body)
        for (a_, b_) in subs:
            body = body.replace(a_, b_)
        body = resolve_cfg_in_body(body, self.config)
        info.skeleton = control_skeleton(body)
        if mutself:
            btoks = rl.tokenize(body)
            body = "".join(("vx_self" if (t.kind == rl.IDENT and t.text == "self") else t.text) for t in btoks)
            k = body.index("{")
            body = body[:k + 1] + " let mut vx_self = self;" + body[k + 1:]
            self.rewrite_log.append("%s: R34 (mut self)" % qname)
        body, counts = apply_rewrites(body, declared={r1 for r in rw_expect for r1 in r.split('+')})
        if self.auto_inline and name not in self.auto_inline:
            body = self.inline_helpers(body, qname)
        info.rewrites = counts
        declared = set()
        for r, c in rw_expect.items():
            got = sum(counts.get(r1, 0) for r1 in r.split("+"))
            declared |= set(r.split("+"))
            if c is not None and got != c:
                raise AnchorLoss("fn %s: rewrite %s matched %d times, expected %d" % (qname, r, got, c))
        self.block_fns.append((name, tags, body))
        for r, c in counts.items():
            if c and r not in declared and r not in FREE_RULES:
                raise AnchorLoss("fn %s: rewrite %s matched %d times but is not declared in the unit (rw=%s:%d)" % (qname, r, c, r, c))
            if c:
                self.rewrite_log.append("%s: %s x%d" % (qname, r, c))
        if stub:
            # contract assumed (external_body); the body is not even type-checked: replaced by a stub
            if not info.external_body:
                raise AnchorLoss("fn %s: `stub` requires attr=#[verifier::external_body]" % qname)
            self.emit_spec("    { unimplemented!() }", lineno, qname)
            return
        self.emit_body(body, body_first_line, qname, inserts, loops)

    def fix_signature(self, sig, ret, name):
        s = sig.strip()
        s = re.sub(r"^pub(\s*\([^)]*\))?\s+", "", s)
        # drop comments inside signature
        s = strip_comments_keep_lines(s)
        if ret:
            # find top-level `->` after the parameter list
            toks = rl.tokenize(s)
            code = rl.code_idx(toks)
            # locate `fn name` then generics, then '(' params ')'
            k = 0
            while k < len(code) and not (toks[code[k]].text == "fn"):
                k += 1
            # find first '(' at angle depth 0 after fn name
            j = code[k] + 1
            depth = 0
            while j < len(toks):
                t = toks[j]
                if t.kind == rl.PUNCT:
                    if t.text == '<':
                        depth += 1
                    elif t.text == '>' and toks[j - 1].text != '-':
                        depth -= 1
                    elif t.text == '(' and depth == 0:
                        break
                j += 1
            close = rl.match_close(toks, j)
            # after close: optional `-> Type` up to `where` or end
            rest_start = close + 1
            jj = rest_start
            while jj < len(toks) and toks[jj].kind in (rl.WS,):
                jj += 1
            if jj + 1 < len(toks) and toks[jj].text == '-' and toks[jj + 1].text == '>':
                # type runs to a top-level `where` or end
                kk = jj + 2
                d2 = 0
                end = len(toks)
                while kk < len(toks):
                    t = toks[kk]
                    if t.kind == rl.PUNCT and t.text in "(<[":
                        d2 += 1
                    elif t.kind == rl.PUNCT and t.text in ")]":
                        d2 -= 1
                    elif t.kind == rl.PUNCT and t.text == '>' and toks[kk - 1].text != '-':
                        d2 -= 1
                    elif t.kind == rl.IDENT and t.text == "where" and d2 == 0:
                        end = kk
                        break
                    kk += 1
                ty = "".join(t.text for t in toks[jj + 2:end]).strip()
                pre = "".join(t.text for t in toks[:jj])
                post = "".join(t.text for t in toks[end:])
                s = "%s-> (%s: %s)%s%s" % (pre, ret, ty, "\n    " if post.strip() else "", post.strip())
            else:
                raise AnchorLoss("fn %s: ret= given but the function returns nothing" % name)
        vis = "" if self.ctx_impl_is_trait else "pub "
        return "    " + vis + s

    def emit_body(self, body, first_line, qname, inserts, loops):
        """body: text starting with '{' and ending with '}' (line structure preserved)."""
        toks = rl.tokenize(body)
        code = rl.code_idx(toks)
        # insertion points: list of (char offset, order, lines)
        points = []
        for (ln, where, lines) in inserts:
            off = self.find_anchor(toks, code, where, qname, ln)
            points.append((off, ln, lines))
        # loops
        loop_kw = [k for k in code if toks[k].kind == rl.IDENT and toks[k].text in ("loop", "while", "for")
                   and not _is_for_in_generic(toks, k)]
        for idx, (ln, lines) in loops.items():
            if idx < 1 or idx > len(loop_kw):
                raise AnchorLoss("fn %s: loop %d not found (%d loops)" % (qname, idx, len(loop_kw)))
            k = loop_kw[idx - 1]
            j = k + 1
            while j < len(toks):
                t = toks[j]
                if t.kind == rl.PUNCT and t.text in ('(', '['):
                    j = rl.match_close(toks, j) + 1
                    continue
                if t.kind == rl.PUNCT and t.text == '{':
                    break
                j += 1
            points.append((toks[j].pos, ln, lines))
        n_loops_with_inv = len(loops)
        points.sort(key=lambda p: (p[0], p[1]))
        # emit
        cur = 0
        line = first_line

        def emit_chunk(txt):
            nonlocal line
            if txt == "":
                return
            pieces = txt.split("\n")
            for i, p in enumerate(pieces):
                last = (i == len(pieces) - 1)
                if p.strip() != "" or not last:
                    if p.strip() != "":
                        self.emit_src(p, self.ctx_alias, line, qname)
                if not last:
                    line += 1

        for (off, ln, lines) in points:
            emit_chunk(body[cur:off])
            cur = off
            for (sl, raw) in lines:
                label, ltags = _parse_label(raw)
                self.emit_spec(raw, sl, qname, label, ltags or self.fns[qname].tags)
        emit_chunk(body[cur:])

    def find_anchor(self, toks, code, where, qname, ln):
        if where == "start":
            return toks[code[0]].pos + 1
        if where == "end":
            return toks[code[-1]].pos
        if where == "tail":
            # before the tail expression of the body (the value the function returns), whatever its text is; a body without a
            # tail expression: same as `end`; a tail that is itself a block expression (`match .. {..}`): not supported -> anchor loss
            last = len(code) - 2
            if last < 1 or toks[code[last]].text == ";":
                return toks[code[-1]].pos
            if toks[code[last]].text == "}":
                raise AnchorLoss("fn %s: `at tail` (spec line %d): the tail expression ends in a block" % (qname, ln))
            k, depth = last, 0
            while k >= 1:
                tx = toks[code[k]].text
                if tx in (")", "]"):
                    depth += 1
                elif tx in ("(", "["):
                    depth -= 1
                elif depth == 0 and tx in (";", "{", "}"):
                    break
                k -= 1
            return toks[code[k + 1]].pos
        m = re.match(r"^(before-stmt|before|after)\s+(last|\d+)\s+`(.*)`$", where)
        if not m:
            raise AnchorLoss("spec line %d: bad anchor %r" % (ln, where))
        side, ordinal, pat = m.group(1), m.group(2), m.group(3)
        ptoks = [t.text for t in rl.tokenize(pat) if t.kind not in (rl.WS, rl.LCOM, rl.BCOM)]
        ctexts = [toks[k].text for k in code]
        hits = []
        for s in range(0, len(ctexts) - len(ptoks) + 1):
            if ctexts[s:s + len(ptoks)] == ptoks:
                hits.append(s)
        if not hits:
            raise AnchorLoss("fn %s: anchor `%s` (spec line %d) not found" % (qname, pat, ln))
        if ordinal == "last":
            s = hits[-1]
        else:
            o = int(ordinal)
            if o < 1 or o > len(hits):
                raise AnchorLoss("fn %s: anchor `%s` occurrence %d not found (%d hits)" % (qname, pat, o, len(hits)))
            s = hits[o - 1]
        if side == "before-stmt":
            # start of the statement (or tail expression) that contains the anchor: robust against the anchor ending up inside a
            # larger expression after a harmless edit (`popped` -> `Some(popped)`)
            k, depth = s - 1, 0
            while k >= 0:
                tx = toks[code[k]].text
                if tx in (")", "]", "}"):
                    if tx == "}" and depth == 0:
                        break       # a block statement ends here
                    depth += 1
                elif tx in ("(", "[", "{"):
                    if depth == 0:
                        if tx == "{":
                            break
                    else:
                        depth -= 1
                elif tx == ";" and depth == 0:
                    break
                k -= 1
            return toks[code[k + 1]].pos
        if side == "before":
            return toks[code[s]].pos
        t = toks[code[s + len(ptoks) - 1]]
        return t.pos + len(t.text)

    # ---------------------------------------------------------------- output
    def text(self):
        return "\n".join(l.text for l in self.out) + "\n"


def _match_paren_txt(body, i):
    depth, j, in_str = 0, i, False
    while j < len(body):
        ch = body[j]
        if in_str:
            if ch == "\\":
                j += 1
            elif ch == '"':
                in_str = False
        elif ch == '"':
            in_str = True
        elif ch in "([{":
            depth += 1
        elif ch in ")]}":
            depth -= 1
            if depth == 0:
                return j
        j += 1
    return -1


def _split_top(s):
    out, depth, cur = [], 0, ""
    for ch in s:
        if ch in "([{<":
            depth += 1
        elif ch in ")]}>":
            depth -= 1
        if ch == "," and depth == 0:
            out.append(cur)
            cur = ""
        else:
            cur += ch
    if cur.strip():
        out.append(cur)
    return out


def _impl_self_type(norm_header):
    """'Stack' for `impl<T:Clone>Stack<T>`; 'Stack as Index' for a trait impl."""
    h = re.sub(r"\bwhere\b.*$", "", norm_header)
    h = _strip_leading_generics(re.sub(r"^impl", "", h))
    parts = re.split(r"\bfor\b", h)
    def tyname(x):
        m = re.match(r"\s*&?\s*(?:'[a-z_]+\s*)?(?:mut\s+)?([A-Za-z_][A-Za-z0-9_:]*)", x)
        return m.group(1) if m else x.strip()
    if len(parts) == 2:
        return "%s as %s" % (tyname(parts[1]), tyname(parts[0]))
    return tyname(h)


def _strip_leading_generics(h):
    h = h.lstrip()
    if not h.startswith("<"):
        return h
    depth = 0
    for i, ch in enumerate(h):
        if ch == '<':
            depth += 1
        elif ch == '>' and (i == 0 or h[i - 1] != '-'):
            depth -= 1
            if depth == 0:
                return h[i + 1:]
    return h


def _widen_vis(text):
    t = text.lstrip()
    t = re.sub(r"^pub(\s*\([^)]*\))?\s+", "", t)
    return "pub " + t


def _split_fields(toks, lo, hi):
    """split toks[lo:hi] at top-level commas (angle brackets tracked)."""
    res, depth, start = [], 0, lo
    k = lo
    while k < hi:
        t = toks[k]
        if t.kind == rl.PUNCT:
            if t.text in "([{":
                k = rl.match_close(toks, k) + 1
                continue
            if t.text == '<':
                depth += 1
            elif t.text == '>' and toks[k - 1].text not in ('-', '='):
                depth -= 1
            elif t.text == ',' and depth == 0:
                res.append((start, k))
                start = k + 1
        k += 1
    if any(t.kind not in (rl.WS, rl.LCOM, rl.BCOM) for t in toks[start:hi]):
        res.append((start, hi))
    return res


def _strip_field_attrs(ftoks):
    out, k = [], 0
    while k < len(ftoks):
        t = ftoks[k]
        if t.kind == rl.PUNCT and t.text == '#':
            j = k + 1
            while ftoks[j].kind == rl.WS:
                j += 1
            e = rl.match_close(ftoks, j)
            k = e + 1
            continue
        out.append(t.text)
        k += 1
    return " ".join("".join(out).split())


def _parse_label(raw):
    m = re.search(r"//\s*#([A-Za-z0-9_\-\.]+)((?:\s+C\d+)*)(?:\s.*)?$", raw)
    if not m:
        return "", ()
    return m.group(1), tuple(m.group(2).split())


def _is_for_in_generic(toks, k):
    """`for<'a>` higher-ranked bound is not a loop."""
    if toks[k].text != "for":
        return False
    j = k + 1
    while j < len(toks) and toks[j].kind == rl.WS:
        j += 1
    return j < len(toks) and toks[j].text == '<'


def strip_comments_keep_lines(text):
    toks = rl.tokenize(text)
    out = []
    for t in toks:
        if t.kind == rl.LCOM:
            continue
        if t.kind == rl.BCOM:
            out.append("\n" * t.text.count("\n"))
            continue
        out.append(t.text)
    return "".join(out)


def resolve_cfg_in_body(body, config):
    """Resolve `#[cfg(..)]` on statements/blocks and `cfg!(..)` inside a body."""
    changed = True
    while changed:
        changed = False
        toks = rl.tokenize(body)
        for k, t in enumerate(toks):
            if t.kind == rl.PUNCT and t.text == '#':
                j = k + 1
                while toks[j].kind == rl.WS:
                    j += 1
                if toks[j].text != '[':
                    continue
                e = rl.match_close(toks, j)
                a = rl.norm("".join(x.text for x in toks[k:e + 1]))
                m = CFG_RE.match(a)
                if not m:
                    if DROP_ATTR_RE.match(a):
                        s0, s1 = t.pos, toks[e].pos + 1
                        body = body[:s0] + _blank(body[s0:s1]) + body[s1:]
                        changed = True
                        break
                    raise AnchorLoss("unknown attribute in body: %s" % a)
                val = eval_cfg(m.group(1), config)
                # statement extent: from e+1 to matching '}' of first '{' or to ';' at depth 0
                q = e + 1
                end = None
                while q < len(toks):
                    tt = toks[q]
                    if tt.kind == rl.PUNCT and tt.text in "([":
                        q = rl.match_close(toks, q) + 1
                        continue
                    if tt.kind == rl.PUNCT and tt.text == '{':
                        end = rl.match_close(toks, q)
                        # a trailing ';' belongs to it
                        break
                    if tt.kind == rl.PUNCT and tt.text == ';':
                        end = q
                        break
                    q += 1
                if end is None:
                    raise AnchorLoss("cfg attribute without statement")
                s0, s1 = t.pos, toks[e].pos + 1
                if val:
                    body = body[:s0] + _blank(body[s0:s1]) + body[s1:]
                else:
                    s2 = toks[end].pos + 1
                    body = body[:s0] + _blank(body[s0:s2]) + body[s2:]
                changed = True
                break
            if t.kind == rl.IDENT and t.text == "cfg" and k + 1 < len(toks) and toks[k + 1].text == '!':
                j = k + 2
                e = rl.match_close(toks, j)
                pred = rl.norm("".join(x.text for x in toks[j + 1:e]))
                val = eval_cfg(pred, config)
                s0, s1 = t.pos, toks[e].pos + 1
                rep = "true" if val else "false"
                body = body[:s0] + rep + _blank(body[s0:s1]) + body[s1:]
                changed = True
                break
    return body


def _blank(s):
    return "\n" * s.count("\n")
