"""Minimal Rust tokenizer and item finder used by the extractor.

Only what is needed to copy items token-for-token out of /repo sources:
comments, (raw/byte) strings, char literals vs lifetimes, identifiers,
numbers, single-character punctuation; brace matching on top of that.
"""
import re
from dataclasses import dataclass, field

WS, LCOM, BCOM, STR, CHAR, LIFE, IDENT, NUM, PUNCT = (
    "ws", "lcom", "bcom", "str", "char", "life", "ident", "num", "punct")


@dataclass
class Tok:
    kind: str
    text: str
    pos: int   # byte offset into source text (python str index)
    line: int  # 1-based


class LexError(Exception):
    pass


_ident_re = re.compile(r"[A-Za-z_][A-Za-z0-9_]*")
_num_re = re.compile(r"[0-9][0-9A-Za-z_]*(\.[0-9][0-9A-Za-z_]*)?")


def tokenize(src: str):
    toks = []
    i, n, line = 0, len(src), 1
    while i < n:
        c = src[i]
        start = i
        if c in " \t\r\n":
            while i < n and src[i] in " \t\r\n":
                i += 1
            kind = WS
        elif src.startswith("//", i):
            j = src.find("\n", i)
            i = n if j < 0 else j
            kind = LCOM
        elif src.startswith("/*", i):
            depth, i = 1, i + 2
            while i < n and depth:
                if src.startswith("/*", i):
                    depth += 1; i += 2
                elif src.startswith("*/", i):
                    depth -= 1; i += 2
                else:
                    i += 1
            if depth:
                raise LexError("unterminated block comment at line %d" % line)
            kind = BCOM
        elif c == '"' or (c == 'b' and src.startswith('b"', i)):
            i += 2 if c == 'b' else 1
            while i < n and src[i] != '"':
                i += 2 if src[i] == '\\' else 1
            if i >= n:
                raise LexError("unterminated string at line %d" % line)
            i += 1
            kind = STR
        elif (c == 'r' and re.match(r'r#*"', src[i:i + 40])) or \
             (c == 'b' and re.match(r'br#*"', src[i:i + 40])):
            m = re.match(r'b?r(#*)"', src[i:i + 40])
            close = '"' + m.group(1)
            j = src.find(close, i + m.end())
            if j < 0:
                raise LexError("unterminated raw string at line %d" % line)
            i = j + len(close)
            kind = STR
        elif c == "'" or (c == 'b' and src.startswith("b'", i)):
            k = i + (2 if c == 'b' else 1)
            # char literal: '\...' or 'x' followed by '
            if k < n and src[k] == '\\':
                j = src.find("'", k + 2)
                if j < 0:
                    raise LexError("bad char literal at line %d" % line)
                i = j + 1
                kind = CHAR
            elif k + 1 < n and src[k + 1] == "'":
                i = k + 2
                kind = CHAR
            else:
                m = _ident_re.match(src, k)
                if not m:
                    raise LexError("bad quote at line %d" % line)
                i = m.end()
                kind = LIFE
        elif c.isalpha() or c == '_':
            m = _ident_re.match(src, i)
            i = m.end()
            kind = IDENT
        elif c.isdigit():
            m = _num_re.match(src, i)
            i = m.end()
            # do not swallow `0..x` range or method call on literal
            txt = src[start:i]
            if '.' in txt and src.startswith('..', start + txt.index('.')):
                i = start + txt.index('.')
            kind = NUM
        else:
            i += 1
            kind = PUNCT
        text = src[start:i]
        toks.append(Tok(kind, text, start, line))
        line += text.count("\n")
    return toks


def code_idx(toks):
    """indices of tokens that are not whitespace/comments"""
    return [k for k, t in enumerate(toks) if t.kind not in (WS, LCOM, BCOM)]


OPEN = {"{": "}", "(": ")", "[": "]"}
CLOSE = {v: k for k, v in OPEN.items()}


def match_close(toks, k):
    """toks[k] is an opening bracket; return index of its matching close."""
    assert toks[k].text in OPEN, toks[k]
    depth = 0
    for j in range(k, len(toks)):
        t = toks[j]
        if t.kind != PUNCT:
            continue
        if t.text in OPEN:
            depth += 1
        elif t.text in CLOSE:
            depth -= 1
            if depth == 0:
                return j
    raise LexError("unbalanced bracket opened at line %d" % toks[k].line)


@dataclass
class Item:
    kind: str            # fn struct enum impl mod use const static type trait macro other
    name: str            # identifier, or normalised header for impl
    attrs: list          # list of attribute texts ("#[...]")
    first: int           # token index of first token (attrs included)
    head: int            # token index of first token after attrs/doc comments
    body_open: int       # token index of '{' (or -1)
    last: int            # token index of last token (inclusive): '}' or ';'
    header: str = ""     # normalised text head..body_open (exclusive)
    children: list = field(default_factory=list)


def norm(s: str) -> str:
    """whitespace-normalise code text (used for anchors and header matching)"""
    toks = tokenize(s)
    out = []
    for t in toks:
        if t.kind in (WS, LCOM, BCOM):
            continue
        out.append(t.text)
    # join: put a space only between two word-like tokens
    res = []
    for a in out:
        if res and (res[-1][-1].isalnum() or res[-1][-1] == '_') and (a[0].isalnum() or a[0] == '_'):
            res.append(" ")
        res.append(a)
    return "".join(res)


_ITEM_KW = {"fn", "struct", "enum", "impl", "mod", "use", "const", "static", "type", "trait", "macro_rules", "union"}
_QUAL = {"pub", "unsafe", "async", "extern", "default", "const"}


def find_items(toks, lo, hi):
    """Find items among toks[lo:hi] (a region at brace depth 0)."""
    items = []
    k = lo
    while k < hi:
        t = toks[k]
        if t.kind in (WS, LCOM, BCOM):
            k += 1
            continue
        first = k
        attrs = []
        # attributes
        while k < hi:
            t = toks[k]
            if t.kind in (WS, LCOM, BCOM):
                k += 1
                continue
            if t.kind == PUNCT and t.text == '#':
                j = k + 1
                if toks[j].text == '!':
                    j += 1
                while toks[j].kind in (WS,):
                    j += 1
                if toks[j].text != '[':
                    raise LexError("bad attribute at line %d" % t.line)
                e = match_close(toks, j)
                attrs.append(norm("".join(x.text for x in toks[k:e + 1])))
                k = e + 1
                continue
            break
        if k >= hi:
            break
        head = k
        # qualifiers
        kind = None
        name = ""
        j = k
        while j < hi:
            t = toks[j]
            if t.kind in (WS, LCOM, BCOM):
                j += 1
                continue
            if t.kind == IDENT and t.text in _ITEM_KW:
                if t.text == "const":
                    # `const fn` vs `const NAME`
                    nj = _next_code(toks, j + 1, hi)
                    if nj is not None and toks[nj].kind == IDENT and toks[nj].text in ("fn", "unsafe", "async", "extern"):
                        j += 1
                        continue
                kind = t.text
                break
            if t.kind == IDENT and t.text in _QUAL:
                j += 1
                # pub(crate)
                nj = _next_code(toks, j, hi)
                if t.text == "pub" and nj is not None and toks[nj].text == '(':
                    j = match_close(toks, nj) + 1
                continue
            if t.kind == STR:  # extern "C"
                j += 1
                continue
            break
        if kind is None:
            # unknown construct: macro invocation etc. Skip to ';' or matching '}' at depth 0
            kind = "other"
            kw = j
        else:
            kw = j
        # find end: first ';' or '{' at paren depth 0
        body_open = -1
        j = kw
        last = None
        while j < hi:
            t = toks[j]
            if t.kind == PUNCT:
                if t.text in ('(', '['):
                    j = match_close(toks, j) + 1
                    continue
                if t.text == '{':
                    body_open = j
                    last = match_close(toks, j)
                    break
                if t.text == ';':
                    last = j
                    break
            j += 1
        if last is None:
            raise LexError("item without end at line %d" % toks[head].line)
        if kind in ("const", "static", "type", "use") and toks[last].text == '}':
            # `const X: T = { .. };` / `use a::{b, c};`
            j = last + 1
            while j < hi and toks[j].text != ';':
                j += 1
            body_open = -1
            last = j
        if kind == "struct" and toks[last].text == '}' and False:
            pass
        # name
        if kind == "impl":
            name = norm("".join(x.text for x in toks[kw:body_open]))
        elif kind in ("other",):
            name = ""
        else:
            nj = _next_code(toks, kw + 1, hi)
            if kind == "macro_rules":
                nj = _next_code(toks, nj + 1, hi)  # skip '!'
            name = toks[nj].text if nj is not None else ""
        header = norm("".join(x.text for x in toks[head:(body_open if body_open >= 0 else last)]))
        it = Item(kind, name, attrs, first, head, body_open, last, header)
        if kind in ("impl", "mod", "trait") and body_open >= 0:
            it.children = find_items(toks, body_open + 1, last)
        items.append(it)
        k = last + 1
    return items


def _next_code(toks, j, hi):
    while j < hi:
        if toks[j].kind not in (WS, LCOM, BCOM):
            return j
        j += 1
    return None


def text_of(toks, a, b):
    """source text of toks[a..b] inclusive"""
    return "".join(t.text for t in toks[a:b + 1])
