"""Regenerates /verif/MANIFEST.json from vx/props.py (keeps it valid at all times)."""
import json
import os
import sys

ROOT = os.path.dirname(os.path.dirname(os.path.abspath(__file__)))
sys.path.insert(0, ROOT)
from vx.props import PROPS, NOT_APPLICABLE, HOOK_COMMITS  # noqa: E402


def main():
    checks = []
    for pid in sorted(PROPS):
        P = PROPS[pid]
        checks.append(dict(
            property_id=pid,
            quick_cmd="./check %s --tier quick" % pid,
            thorough_cmd="./check %s --tier thorough" % pid,
            evidence_file="/verif/evidence/%s.json" % pid,
            replay_cmd_template="./check %s --replay {path}" % pid,
            engine="vx",
            level_claimed=dict(category="proof", text=P["level_text"], design_ref=P.get("design_ref", "")),
            level_note=P["level_note"],
            technique=P["technique"],
        ))
    m = dict(
        version=1,
        setup_cmd="./setup.sh",
        hooks=dict(
            guard="cfg(kani) for in-module Kani harness includes; --cfg pest_parser_pest_verif for read-only accessors",
            enable="Verus units need no hook (functions are extracted from the working tree); Kani: `cargo kani` sets cfg(kani); replay searchers: RUSTFLAGS='--cfg pest_parser_pest_verif'",
            baseline_off_cmd="cd /repo && cargo test --workspace --no-fail-fast --offline",
            source_commits=HOOK_COMMITS,
            add_only=True,
        ),
        engines=[dict(name="vx", path="/verif/vx", serves_properties=sorted(PROPS),
                      kind_free_text="extractor + contract weaver + Verus/Kani runner + classifier (contract-based deductive verification of functions copied mechanically from /repo on every run)")],
        checks=checks,
        notes="Exit codes: 0 holds, 1 VIOLATION, 2 UNDECIDED (anchor loss / unsupported construct / solver limit; never an alarm). See DESIGN.md.",
        not_applicable=[dict(property_id=k, reason=v) for k, v in sorted(NOT_APPLICABLE.items()) if k not in PROPS],
    )
    with open(os.path.join(ROOT, "MANIFEST.json"), "w") as f:
        json.dump(m, f, indent=1)
    print("MANIFEST.json: %d checks, %d not applicable" % (len(checks), len(m["not_applicable"])))


if __name__ == "__main__":
    main()
