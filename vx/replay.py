"""Replay files and witness searchers.

Verus yields no counterexample.  After a failed obligation a witness searcher
(plain Rust built against /repo, see /verif/replay/) looks for a concrete
failing input on the real code; it is never the deciding step."""
import json
import os
import subprocess
import time


def make_replay(root, repo, pid, P, failures, unit_results, seed, undecided=None):
    outdir = os.path.join(root, "out", "replay")
    os.makedirs(outdir, exist_ok=True)
    path = os.path.join(outdir, "%s-%d.json" % (pid, int(time.time())))
    witness = None
    searchers = P.get("searcher")
    if isinstance(searchers, str):
        searchers = [searchers]
    searcher = None
    search_log = ""
    for sname in (searchers or []):
        w, lg = run_searcher(root, repo, sname, pid, [f.name for f in failures], seed)
        search_log += "\n== %s ==\n%s" % (sname, lg[-2500:])
        if w is not None:
            witness, searcher = w, sname
            break
    if searcher is None and searchers:
        searcher = searchers[0]
    doc = dict(
        property=pid,
        failed_obligations=[dict(name=f.name, kind=f.kind, message=f.message, where=f.where, verifier_output=f.rendered) for f in failures],
        witness=witness,
        searcher=searcher,
        searcher_log=search_log[-4000:],
        undecided=undecided or [],
        note=("witness found by the replay searcher on the real code" if witness else
              "no-failing-input-found: the verifier gives no model; the failed obligation(s) above were discharged on the unchanged tree"),
        generated_files=[r.gen_path for r in unit_results],
    )
    with open(path, "w") as f:
        json.dump(doc, f, indent=1)
    return path, witness is not None


def searcher_bin(root, name):
    return os.path.join(root, "out", "target-replay", "release", name + "_search")


def build_searchers(root, repo, names=None):
    """cargo build of /verif/replay against /repo (path dependency), offline."""
    env = dict(os.environ, CARGO_NET_OFFLINE="true", CARGO_TARGET_DIR=os.path.join(root, "out", "target-replay"),
               RUSTFLAGS="--cfg pest_parser_pest_verif")
    cmd = ["cargo", "build", "--offline", "--release", "--manifest-path", os.path.join(root, "replay", "Cargo.toml")]
    if names:
        for n in names:
            cmd += ["--bin", n + "_search"]
    p = subprocess.run(cmd, env=env, capture_output=True, text=True)
    return p.returncode == 0, p.stdout + p.stderr


def _unicode_search(root, repo, args, timeout=900):
    from . import gen_unicode
    d = gen_unicode.generate_search(root, repo)
    env = dict(os.environ, CARGO_NET_OFFLINE="true", CARGO_TARGET_DIR=os.path.join(root, "out", "target-replay"))
    p = subprocess.run(["cargo", "run", "--offline", "--release", "-q", "--manifest-path", os.path.join(d, "Cargo.toml"), "--"] + args,
                       env=env, capture_output=True, text=True, timeout=timeout)
    if p.returncode != 0 and "could not compile" in p.stderr and "WITNESS" not in p.stdout:
        # the derive-generated parser over the advertised names does not build on this tree (the generator / validator rejects a
        # name at macro-expansion time): run the remaining access paths without it so that a concrete witness can still be reported
        p2 = subprocess.run(["cargo", "run", "--offline", "--release", "-q", "--no-default-features", "--manifest-path", os.path.join(d, "Cargo.toml"), "--"] + args,
                            env=env, capture_output=True, text=True, timeout=timeout)
        p2.stderr = "NOTE: the derive-generated parser for the advertised names did not compile on this tree:\n" + p.stderr[-1500:] + "\n" + p2.stderr
        if p2.returncode == 0 and "WITNESS" not in p2.stdout and ("NAMES-OK" in p2.stdout or "NO-WITNESS" in p2.stdout):
            # everything else builds and agrees, only the generated parser with one rule per advertised name does not compile:
            # the generator cannot resolve some advertised name - that is the witness
            import re as _re
            missing = sorted(set(_re.findall(r"cannot find (?:function|value) `(?:r#)?([A-Z][A-Z0-9_]*)`", p.stderr)))
            what = "the derive-generated parser with one rule per advertised property name does not compile (the same crate without it builds and agrees)"
            if missing:
                what += ": no generated function for " + ", ".join(missing[:12])
            p2.stdout = 'WITNESS {"code_point":"names","what":"%s"}\n' % what.replace('"', "'") + p2.stdout.replace("NAMES-OK", "names-ok-without-the-generated-parser")
            p2.returncode = 1
        return p2
    return p


def run_searcher(root, repo, name, pid, obligations, seed):
    if name == "unicode":
        hs = [o.split("::")[-1].replace("_sweep", "") for o in obligations]
        if "names_resolve_and_agree" in hs:
            p = _unicode_search(root, repo, ["--names"])
        else:
            p = _unicode_search(root, repo, hs)
        w = None
        for line in p.stdout.split("\n"):
            if line.startswith("WITNESS "):
                w = json.loads(line[8:])
        return w, p.stdout[-2000:] + p.stderr[-2000:]
    ok, log = build_searchers(root, repo, [name])
    if not ok:
        return None, "searcher build failed:\n" + log
    try:
        p = subprocess.run([searcher_bin(root, name), "--search", pid, "--seed", str(seed)] + obligations,
                           capture_output=True, text=True, timeout=600)
    except subprocess.TimeoutExpired:
        return None, log + "\nsearcher timeout"
    w = None
    for line in p.stdout.split("\n"):
        if line.startswith("WITNESS "):
            try:
                w = json.loads(line[8:])
            except ValueError:
                w = dict(raw=line[8:])
            break
    return w, log + p.stdout[-2000:] + p.stderr[-2000:]


def replay(root, repo, pid, path):
    doc = json.load(open(path))
    w = doc.get("witness")
    print("replay of %s for property %s" % (path, pid))
    for fo in doc.get("failed_obligations", []):
        print("  failed obligation: %s  [%s] %s" % (fo["name"], fo["message"], fo["where"]))
    if not w:
        print("  no concrete witness recorded (no-failing-input-found); verifier output:")
        for fo in doc.get("failed_obligations", []):
            print(fo.get("verifier_output", ""))
        return 1
    name = doc.get("searcher")
    if name == "unicode":
        p = _unicode_search(root, repo, ["--replay", w["code_point"]])
        print(p.stdout + p.stderr)
        return 1 if p.returncode != 0 else 0
    ok, log = build_searchers(root, repo, [name])
    if not ok:
        print(log)
        return 2
    p = subprocess.run([searcher_bin(root, name), "--replay", json.dumps(w, separators=(",", ":"), ensure_ascii=False)], capture_output=True, text=True, timeout=600)
    print(p.stdout + p.stderr)
    return 1 if p.returncode != 0 else 0
