"""Which units / harnesses decide which property."""

# verus_units: list of (unit, config-override dict, variant-name)
# kani: list of harness-group names understood by kani_run.py
PROPS = {
    "C11": dict(
        title="The backtracking stack is transactional for every history",
        verus_units=[("stack", {}, "")],
        kani_complete=[], kani_bounded=[],
        searcher="stack",
        design_ref="DESIGN.md section 4, C11",
        technique="contract-based deductive verification (Verus): abstraction-function model + well-formedness invariant on the real Stack methods, extracted from /repo each run",
        level_text="Unbounded proof: every Stack method, copied token-for-token from pest/src/stack.rs, is verified by Verus against the naive full-copy model through an abstraction function; wf is an inductive invariant, so all histories and all snapshot depths are covered; all arithmetic/range preconditions are discharged (no panic).",
        level_note="Assumed: std contracts of Vec::drain/extend/rev (3 external_body helpers), Clone returns an equal element, Verus/Z3/vstd, the extractor. The Index<Range<usize>> impl is verified as an inherent method (Verus rejects requires on trait impls).",
        assumptions=["clone_is_id::<T>(): Clone on stack elements returns an equal value (a `requires` of Stack::pop; true for pest's SpanOrLiteral and i32)",
                     "Vec lengths fit usize (vstd); std contracts of Vec::drain / Vec::extend / Iterator::rev as stated on the vx_* helpers",
                     "Verus 0.2026.09.13 + Z3, vstd specifications of Vec/Option; the extractor (token-level copy + rewrite rules R1,R2,R3)"],
        not_covered=["impl Default for Stack<T> (delegates to new)"],
    ),
}
CORE_ASSUME = [
    "Verus 0.2026.09.13 + Z3 + vstd's specifications of core/alloc (Vec, Option, Result, Box, Rc, str, Chars, slices) and its UTF-8 theory",
    "the extractor: token-level copy of the listed functions from /repo on every run plus the closed rewrite table (R1,R2,R3,R4,R9,R10,R15,R16,R17,R18,R25,R26,R27,R28,R29,R30,R38); generated file and line map kept in /verif/out",
    "std contracts restated on trusted helpers (external_body, body = the original std call): Vec::drain/extend/rev, Vec::splice(n.., w) with the result dropped, a relaxed load of a global atomic returns some value, sort+dedup, String::from, str indexing by a range (vstd specifies only its precondition), str::get -> SliceIndex::get, str::eq_ignore_ascii_case",
    "a str occupies at most isize::MAX bytes; a Vec<R> holds at most isize::MAX elements; stack depth fits i32 in normalize_index",
    "Clone returns an equal value for stack elements (SpanOrLiteral), for BorrowedOrArc (a copied &str or a cloned Arc<String>) and for rule types (Copy); the explicit Deref::deref call on an Arc returns the pointee (assume_specification; vstd specifies only the *a form)",
    "closures passed to combinators are 'lawful': their precondition is implied by the state invariant and they satisfy the frame law and the refusal law (every operation is proved to satisfy both, given that its closure arguments do: induction over call trees). Closures whose preconditions need more than the invariant (stack_peek/stack_pop on a possibly empty stack) and Result::or_else chains (refusal law) are outside this class",
    "pointer identity of input slices (ptr::eq in Position::span) is not modelled: value equality of the input is proved instead",
    "functions with ASSUMED contracts (external_body; not proved): Position::span (ptr::eq), From<Cow> for BorrowedOrArc (no contract); stubs here that are verified in another unit: Error::new_from_pos* (lines unit), pairs::new (pairs unit)",
    "partial correctness for ParserState::repeat (it legitimately diverges on non-progressing closures)",
    "configurations: C03 is verified twice, with feature memchr OFF (skip_until -> skip_until_basic) and ON (memmem / memchr2 / memchr3 arms under the memchr crate's documented contract, declared on a stand-in module: ASSUMED dependency contract); the other properties use the memchr-OFF configuration; debug_assertions ON (debug_assert operands are proved)",
]
CORE_NOT_COVERED = [
    "the text of a literal pushed by stack_push_literal is named (lit_text), not interpreted: the two generic conversions Into<Cow<'static,str>> -> BorrowedOrArc are one trusted helper (R38); that the pushed text is the caller's string is decided by peek_search only",
    "Result::and_then / or_else are std, not pest; they appear only through the closure laws",
]

PROPS["C03"] = dict(
    title="Parser-state combinators are all-or-nothing and match exactly",
    verus_units=[("core", {}, ""), ("core", {"feature.memchr": True}, "memchr")],
    kani=["inmod_c03", "peek_enum"], searcher=["peek", "prims", "stack", "state"],
    design_ref="DESIGN.md section 4, C03",
    technique="contract-based deductive verification (Verus): frame law with closure laws on every ParserState combinator, exact functional contracts on the Position matchers over vstd's UTF-8 theory; real code extracted from /repo each run",
    level_text="Unbounded proof for all call trees built from lawful closures and all inputs: every public ParserState operation is verified against the frame law (input, flags, snapshots below entry depth and earlier tokens untouched) given that its closure arguments obey it; failed sequence / any lookahead restore position, tokens (up to node tags, finding F2) and stack; rule emits exactly one balanced Start/End pair around its body's tokens iff it succeeds outside lookahead/atomic; match_string/insensitive/range/char_by/skip/skip_until_basic have exact iff/advance/stay/boundary postconditions proved from vstd's UTF-8 definitions.",
    level_note="Assumed: vstd specs, std helper contracts (listed in evidence), the lawful-closure hypothesis, 1 external_body pest function with a contract (Position::span: ptr::eq); BorrowedOrArc::as_str and SpanOrLiteral::as_borrowed_or_rc are verified from their bodies over two std assumptions (Arc::deref returns the pointee, Clone of BorrowedOrArc returns an equal value), the memchr crate's documented contract in the memchr configuration. Every combinator also carries a direct-reading postcondition (sequence, lookahead, optional, repeat as a ghost chain, atomic, restore_on_err, rule, stack_push); stack_match_peek_slice, constrain_idxs and stack_push_literal (always Ok, pushes one Literal entry, nothing else changes; conversions through R38) are verified from their bodies. Quick tier adds an enumerative cross-check of PEEK[a..b] / PEEK_ALL / POP_ALL (not counted).",
    assumptions=CORE_ASSUME, not_covered=CORE_NOT_COVERED,
)
PROPS["C04"] = dict(
    title="The token stream is a well-formed tree and every Pairs view agrees with it",
    verus_units=[("core", {}, ""), ("pairs", {}, "")],
    kani=["pairs_enum"], searcher=["pairs", "state"],
    design_ref="DESIGN.md section 4, C04",
    technique="contract-based deductive verification (Verus): recursive closed-forest predicate as part of the frame law of every ParserState operation; precondition of pairs::new discharged in state()",
    level_text="Part (a), emission: proved for all call trees of lawful closures that the tokens appended by any operation form a closed forest (balanced, properly nested, positions non-decreasing, on UTF-8 boundaries, within the text walked), hence every successful parse hands pairs::new a well-formed stream. Part (b), views: pairs::new, Pairs, Pair, Tokens, FlatPairs (len exact after any mix of next / next_back since the F5 fix) and the PairsBuilder API are verified against the sequence of top-level Start indices / Start tokens in the window; Pair::as_node_tag returns exactly the tag recorded on the pair's End token (R41 + an assumed std contract for Borrow<T> for &T); the filtered tag searches, text and JSON views are decided by a bounded enumeration only.",
    level_note="As C03. Display/Debug/JSON/concat views build strings through format!/serde and are outside the Verus subset; the filtered node-tag searches (find_tagged, find_first_tagged) and the text views are decided only by the pairs_search enumeration in the quick tier (bounded stand-in, not counted).",
    assumptions=CORE_ASSUME, not_covered=CORE_NOT_COVERED + ["Display, alternate Display, Debug, to_json: format!/serde code outside every contract - decided only by the pairs_search enumeration (bounded stand-in; known finding F6 for the empty top-level Pairs)",
        "node-tag searches (find_tagged, find_first_tagged: Filter<FlatPairs, impl FnMut>) are iterator-adaptor code outside every contract: decided only by the pairs_search enumeration (bounded stand-in, every forest of <= 3 nodes x every tag assignment)"],
)
PROPS["C08"] = dict(
    title="Failure reports point at the furthest failure with sound expectations",
    verus_units=[("core", {}, "")],
    kani=[], searcher=["state"],
    design_ref="DESIGN.md section 4, C08",
    technique="contract-based deductive verification (Verus) with a ghost attempt history: exact functional model of track, history invariant preserved by every operation, state() reports attempt_pos and the sorted, deduplicated lists",
    level_text="Unbounded proof: track is verified against an exact functional model written from the property text (atomic => nothing; exactly-one-child exception; further => restart lists; same position => replace inner attempts; behind => nothing); a ghost set of (rule, position, polarity) events is extended in rule at both track sites; the invariant 'every listed rule is in the history at attempt_pos with the right polarity, no history entry lies beyond attempt_pos, attempt_pos is attained (or 0)' is preserved by every operation and exported by state(), whose Err branch reports attempt_pos (a boundary) and sort+dedup images of the two lists.",
    level_note="As C03, plus: std sort/dedup contract assumed (sorted, no duplicates, same set); the ghost history is a specification device woven into rule; both back-ends enter through ParserState::rule - their own dispatch code is not under contract.",
    assumptions=CORE_ASSUME, not_covered=CORE_NOT_COVERED + ["vm/src/lib.rs and generated code dispatch (C01/C02) are not under contract; they reach tracking only through ParserState::rule"],
)
PROPS["C12"] = dict(
    title="A call limit never changes a result silently",
    verus_units=[("core", {}, "")],
    kani=[], searcher=["state"],
    design_ref="DESIGN.md section 4, C12",
    technique="contract-based deductive verification (Verus) with a ghost 'refused' bit set where inc_call_check_limit refuses; refusal law proved per operation; three operations violate it (known findings F4)",
    level_text="Unary formulation of the two-run property: limit constant and counter monotone (frame), inc_call_check_limit refuses iff the limit is reached and records it in a ghost bit, every operation whose closures obey the refusal law obeys it too (a refusal during the call makes the call fail), state() turns an Err with the limit reached into the 'call limit reached' error, and the state invariant keeps 'a recorded refusal implies the limit is still reached' (inv_limit), so a refusal cannot be forgotten by anything that restores or refunds the counter; every combinator's direct reading pins its result's call tracker to its closure's. optional, repeat and negative lookahead do NOT obey the law: recorded as known findings F4 (isolated failing obligations). repeat carries its direct reading as a ghost chain of closure results (it may stop only when the closure fails); limit_reached, CallLimitTracker::default and inc_call_check_limit are verified from their bodies.",
    level_note="As C03. Choice is Result::or_else in generated code / the VM (std), outside the contracts; it absorbs refusals the same way (F4).",
    assumptions=CORE_ASSUME, not_covered=CORE_NOT_COVERED,
)
PROPS["C15"] = dict(
    title="Detailed error tracking is observationally transparent",
    verus_units=[("core", {}, "")],
    kani=[], searcher=["state"],
    design_ref="DESIGN.md section 4, C15",
    technique="contract-based deductive verification (Verus): frame obligations at every place that consults parse_attempts.enabled, two-run lemmas derived from the matcher contracts, boundary invariant on max_position",
    level_text="Proved: handle_token_parse_result, try_add_new_token, nullify_expected_tokens and the detail block inlined in rule change nothing but parse_attempts; for the four matchers a two-run lemma (states equal except parse_attempts => results equal except parse_attempts, same Ok/Err) follows from their contracts; max_position is always a UTF-8 boundary of the input. try_add_new_stack_rule is verified from its body (iterator adaptors desugared by R25/R25b, splice through the std contract R26): in-range given start_index <= len, touches only call_stacks above start_index.",
    level_note="As C03. Not covered: rendering of the help message (format!/BTreeMap). Non-interference for rule/state rests on the frame assertions around the guarded blocks plus the syntactic fact that the remembered counters are used only inside them.",
    assumptions=CORE_ASSUME, not_covered=CORE_NOT_COVERED + ["parse_attempts_error help text (format!, BTreeMap)"],
)

PROPS["C10"] = dict(
    title="Line/column arithmetic and error rendering are correct for all text",
    verus_units=[("lines", {}, ""), ("pairs", {}, "")],
    kani=["inmod_c10", "lines_enum"], searcher=["lines"],
    design_ref="DESIGN.md section 4, C10",
    technique="contract-based deductive verification (Verus) of the index arithmetic over vstd's UTF-8 theory; bounded Kani harnesses for the iterator-chain functions and an exhaustive native enumeration of short texts for the clauses outside every contract (error construction and rendering)",
    level_text="Unbounded proof: LineIndex::new records exactly the offsets after every newline character (loop invariant over chars()); LineIndex::line_col returns (1 + newlines before the offset, 1 + characters since the last newline) for every boundary offset inside the indexed prefix; Span::new / Position::new succeed exactly on ordered boundary offsets; Span::get builds a sub-span only from ordered boundary offsets inside the span and none of its bound computations overflows (finding F8, fixed); merge_spans; find_line_start / find_line_end return exactly the byte-level line start ls / line end le (their iterator chains desugared by R33 over assumed std contracts of CharIndices; a 0x0A byte is proved to occur only as the one-byte character '\\n'); line_of, LinesSpan::next and Lines::next yield exactly the line [ls, le) containing the cursor (as a span / as its text) and advance to the start of the next line; lines_span / lines start at the span's start; Error::new_from_pos, new_from_pos_with_parsing_attempts and new_from_span record exactly the given variant, the offset(s) and the (line, column) pair(s) of the definition (a span end at column 1 is reported one column after the character before it - Position::skip_back, verified: goes back exactly n characters); they establish the column bounds (cols_ok) under which Error::underline - verified from its body, three loops - never underflows and returns a row whose first `^` stands exactly under the reported column, preceded only by padding that repeats the displayed line's tabs; Error::spacing (the gutter) is as many blanks as the largest line number shown has decimal digits (R42: format!(..).len() of a usize through an assumed std contract).",
    level_note="Assumed: std contracts only - CharIndices (next / next_back yield (byte offset, char) in order), Peekable, partition_point, chars().count(), str range indexing helper. Position::line_col is verified from its body (chars().peekable() through assumed std contracts of core::iter::Peekable, R31/R32): it returns exactly (1 + newlines, 1 + characters since the last newline) of the characters before the offset. The displayed text fields of the errors go through trusted helpers without a contract (visualize_whitespace, R39 str::replace, R40: the statement run of new_from_span that computes the two text fields) Position::match_char - which only selects the helper - is verified from its body. Outside every contract: those text fields, Error::format / Display (format!, String building; format() is the only caller of underline, so the call-site precondition cols_ok is established by the constructors' postcondition but not checked at a contracted call site; the fields of Error are public: an error whose line_col was overwritten by hand is outside the property) - decided only by bounded stand-ins: the lines_search enumeration (every text of <= 5 characters over a 6-character mixed alphabet, every offset and offset pair, all access paths, rendered marker position).",
    assumptions=["Verus + Z3 + vstd (UTF-8 theory); extractor with rewrites R3,R5,R6,R11,R16,R17,R23,R15,R17,R31,R32,R33,R39,R40,R41,R42 and the free rules",
                 "std contracts on trusted helpers: core::iter::Peekable (peekable / next / peek: the remaining items), partition_point (on a sorted Vec<usize>), chars().count(), str range indexing, str::get -> SliceIndex::get, core::cmp::min/max on usize",
                 "std contracts for core::str::CharIndices (next / next_back) and the helper vx_char_indices: the items are (off(cs,k), cs[k]) in order"],
    not_covered=["the text fields of Error (line, continued_line) and Display rendering: format!/String code, decided by the lines_search enumeration only (bounded)",
                 "Span::get: that a sub-span IS returned for every valid range (the converse direction) is decided by the lines_search enumeration only (bounded); the contract covers containment, well-formedness and absence of overflow"],
)

PROPS["C16"] = dict(
    title="Unicode property rules are consistent for every code point",
    verus_units=[], kani=["unicode"], searcher="unicode",
    design_ref="DESIGN.md section 4, C16",
    technique="contract-based verification with Kani/CBMC: loop-free harnesses over a fully symbolic `char` on the real pest::unicode functions (complete over all 1,112,064 scalar values)",
    level_text="Complete proof over the finite domain of all Unicode scalar values: each clause (exactly one two-letter general category; each grouped category equals the union of its members; scripts pairwise disjoint) is one loop-free CBMC query with a symbolic char through the real ucd_trie lookup on the real generated tables. Quick tier: partition + 8 unions; thorough adds the 163-script disjointness harness.",
    level_note="Trusted: Kani 0.68/CBMC/CaDiCaL; the grouping table (UAX#44) in vx/gen_unicode.py is the specification. Name clause (by_name resolves every advertised name and agrees with the function): exhaustive native enumeration as a labelled stand-in, not a proof; the same run requires the grammar validator to accept every advertised name and compares pest_vm and a derive-generated parser with the property function at every range edge (enumerative, not a proof).",
    assumptions=["Kani 0.68 / CBMC 6.11 / CaDiCaL are sound on loop-free code; rustc MIR semantics as modelled by Kani",
                 "the member lists of the eight grouped categories are taken from UAX #44 (specification side), written in vx/gen_unicode.py"],
    not_covered=["name clause: not provable deductively here (a Kani harness for a name deep in the BY_NAME tables did not finish in 15 min). Stand-in: exhaustive native enumeration of every advertised name x every scalar value through unicode::by_name and unicode_property_names on the real code (reported under bounded_checks, never counted as discharged). The validator's built-in table, the VM's and the generator's dispatch are exercised by the same enumeration (validator accepts each name; VM and a derive-generated parser agree with the function at every range edge and on a stride sample)",
                 "script disjointness: the complete Kani harness runs in the thorough tier only (about 4 minutes); the quick tier runs the clause as an exhaustive native sweep (enumerative, not counted as proved)"],
)

NOT_APPLICABLE = {
    "C01": "conformance to PEG semantics is a refinement proof of the VM interpreter + optimizer + meta parser against a formal semantics for all grammars; no function-level contract within reach decides it (its leaf obligations are C03/C04)",
    "C02": "compares emitted source text (quote!) with an interpreter on all grammars and inputs: translation validation, not expressible as a contract on the generator's functions",
    "C05": "semantic preservation of rewriting passes needs a mechanised PEG semantics; passes are closure/iterator traversals outside the Verus subset and too heap-heavy for CBMC",
    "C06": "termination of all accepted grammars is a metatheorem about the validator over a least-fixpoint semantics; only a behaviour-mirroring spec would verify, which would encode rather than decide the property",
    "C07": "round trip through the generated meta parser and a 370-line closure-based AST builder; outside both tools' reach",
    "C09": "totality of the whole front end on arbitrary text; closure/iterator/format-heavy code, CBMC cannot unwind the meta parser on symbolic input",
    "C13": "Pratt parsing loop is generic over Peekable<I> and Box<dyn FnMut>; not in the Verus subset, Kani timed out at sequence length 3",
    "C14": "equality of a checked-in generated file with regenerated output: regeneration/differential check, not a contract",
    "C17": "thread-interleaving property; Kani has no threads, Verus would verify a rewritten model",
    "C18": "language equality with RFC 8259 for a derive-generated parser; needs fixpoint contracts for combinators plus an RFC formalisation, beyond this effort",
}

# commits in /repo that add guarded hooks (kept current by hand)
HOOK_COMMITS = ["ebb0f85 verif hook: cfg(kani) includes for out-of-tree Kani harnesses (position.rs, parser_state.rs)"]
