"""Which units / harnesses decide which property."""

# verus_units: list of (unit, config-override dict, variant-name)
# kani: list of harness-group names understood by kani_run.py
PROPS = {
    "C11": dict(
        title="The backtracking stack is transactional for every history",
        verus_units=[("stack", {}, "")],
        kani_complete=[], kani_bounded=[],
        searcher="stack",
        design_ref="DESIGN.md section 5, C11",
        technique="contract-based deductive verification (Verus): abstraction-function model + well-formedness invariant on the real Stack methods, extracted from /repo each run",
        level_text="Unbounded proof: every Stack method, copied token-for-token from pest/src/stack.rs, is verified by Verus against the naive full-copy model through an abstraction function; wf is an inductive invariant, so all histories and all snapshot depths are covered; all arithmetic/range preconditions are discharged (no panic).",
        level_note="Assumed: std contracts of Vec::drain/extend/rev (3 external_body helpers), Clone returns an equal element, Verus/Z3/vstd, the extractor. Index impl not covered.",
        assumptions=["clone_is_id::<T>(): Clone on stack elements returns an equal value (a `requires` of Stack::pop; true for pest's SpanOrLiteral and i32)",
                     "Vec lengths fit usize (vstd); std contracts of Vec::drain / Vec::extend / Iterator::rev as stated on the vx_* helpers",
                     "Verus 0.2026.09.13 + Z3, vstd specifications of Vec/Option; the extractor (token-level copy + rewrite rules R1,R2,R3)"],
        not_covered=["impl Index<Range<usize>> for Stack<T> (delegates to Vec::index; trait impls cannot carry a requires clause in Verus)",
                     "impl Default for Stack<T> (delegates to new)"],
    ),
}
PROPS["C03"] = dict(
    title="Parser-state combinators are all-or-nothing and match exactly",
    verus_units=[("core", {}, "")],
    kani=[], searcher=None,
    design_ref="DESIGN.md section 5, C03",
    technique="contract-based deductive verification (Verus): frame law on every ParserState combinator with closure laws, exact functional contracts on the Position matchers over vstd's UTF-8 theory; real code extracted from /repo each run",
    level_text="(in progress)",
    level_note="(in progress)",
    assumptions=[], not_covered=[],
)

PROPS["C16"] = dict(
    title="Unicode property rules are consistent for every code point",
    verus_units=[], kani=["unicode"], searcher="unicode",
    design_ref="DESIGN.md section 5, C16",
    technique="contract-based verification with Kani/CBMC: loop-free harnesses over a fully symbolic `char` on the real pest::unicode functions (complete over all 1,112,064 scalar values)",
    level_text="Complete proof over the finite domain of all Unicode scalar values: each clause (exactly one two-letter general category; each grouped category equals the union of its members; scripts pairwise disjoint) is one loop-free CBMC query with a symbolic char through the real ucd_trie lookup on the real generated tables. Quick tier: partition + 8 unions; thorough adds the 163-script disjointness harness.",
    level_note="Trusted: Kani 0.68/CBMC/CaDiCaL; the grouping table (UAX#44) in vx/gen_unicode.py is the specification. Not covered: by_name/VM/generator/validator name dispatch (string tables, Box<dyn Fn>) - the name clause of C16 is NOT decided.",
    assumptions=["Kani 0.68 / CBMC 6.11 / CaDiCaL are sound on loop-free code; rustc MIR semantics as modelled by Kani",
                 "the member lists of the eight grouped categories are taken from UAX #44 (specification side), written in vx/gen_unicode.py"],
    not_covered=["name clause: unicode::by_name (to_uppercase + Box<dyn Fn>), the VM's and the generator's built-in dispatch and the validator's BUILTINS table are string tables outside both tools' reach here; not decided",
                 "script disjointness runs in the thorough tier only (about 4 minutes)"],
)

NOT_APPLICABLE = {
    "C01": "conformance to PEG semantics is a refinement proof of the VM interpreter + optimizer + meta parser against a formal semantics for all grammars; no function-level contract within reach decides it (its leaf obligations are C03/C04)",
    "C02": "compares emitted source text (quote!) with an interpreter on all grammars and inputs: translation validation, not expressible as a contract on the generator's functions",
    "C03": "claimed in DESIGN.md; check not built yet in this commit",
    "C04": "claimed in DESIGN.md; check not built yet in this commit",
    "C05": "semantic preservation of rewriting passes needs a mechanised PEG semantics; passes are closure/iterator traversals outside the Verus subset and too heap-heavy for CBMC",
    "C06": "termination of all accepted grammars is a metatheorem about the validator over a least-fixpoint semantics; only a behaviour-mirroring spec would verify, which would encode rather than decide the property",
    "C07": "round trip through the generated meta parser and a 370-line closure-based AST builder; outside both tools' reach",
    "C08": "claimed in DESIGN.md; check not built yet in this commit",
    "C09": "totality of the whole front end on arbitrary text; closure/iterator/format-heavy code, CBMC cannot unwind the meta parser on symbolic input",
    "C10": "claimed in DESIGN.md; check not built yet in this commit",
    "C12": "claimed in DESIGN.md; check not built yet in this commit",
    "C13": "Pratt parsing loop is generic over Peekable<I> and Box<dyn FnMut>; not in the Verus subset, Kani timed out at sequence length 3",
    "C14": "equality of a checked-in generated file with regenerated output: regeneration/differential check, not a contract",
    "C15": "claimed in DESIGN.md; check not built yet in this commit",
    "C17": "thread-interleaving property; Kani has no threads, Verus would verify a rewritten model",
    "C18": "language equality with RFC 8259 for a derive-generated parser; needs fixpoint contracts for combinators plus an RFC formalisation, beyond this effort",
}

# commits in /repo that add guarded hooks (kept current by hand)
HOOK_COMMITS = []
