//! Witness searcher for C04 (views): builds small token trees with the public PairsBuilder API and compares every view
//! with a reference computed from the tree itself. Used only to attach a concrete failing tree to a failed obligation.
use pest::iterators::{Pair, Pairs, PairsBuilder};
use std::panic::{catch_unwind, AssertUnwindSafe};

#[allow(non_camel_case_types)]
#[derive(Clone, Copy, Debug, Eq, Hash, Ord, PartialEq, PartialOrd)]
enum Rule { a, b, c }
const RULES: [Rule; 3] = [Rule::a, Rule::b, Rule::c];

#[derive(Clone, Debug)]
struct T { rule: Rule, start: usize, end: usize, kids: Vec<T>, tag: u8 }
const TAGS: [Option<&str>; 3] = [None, Some("t"), Some("u")];

/// all forests over [lo, hi) with at most `budget` nodes and depth <= d
fn forests(lo: usize, hi: usize, budget: usize, d: usize) -> Vec<Vec<T>> {
    let mut out = vec![vec![]];
    if budget == 0 || d == 0 { return out; }
    for s in lo..=hi { for e in s..=hi {
        if e == s && s != lo { continue; }   // keep empty spans rare
        for kids in forests(s, e, budget - 1, d - 1) {
            let used = 1 + count(&kids);
            if used > budget { continue; }
            for rest in forests(e, hi, budget - used, d) {
                if e == s && !rest.is_empty() && rest[0].start == s && rest[0].end == s { continue; }
                let mut v = vec![T { rule: RULES[(s + e + d) % 3], start: s, end: e, kids: kids.clone(), tag: 0 }];
                v.extend(rest);
                out.push(v);
            }
        }
    } }
    out
}
fn count(f: &[T]) -> usize { f.iter().map(|t| 1 + count(&t.kids)).sum() }

fn build<'i>(input: &'i str, f: &[T]) -> Pairs<'i, Rule> {
    fn add<'i>(b: PairsBuilder<'i, Rule>, t: &T) -> PairsBuilder<'i, Rule> {
        let b = if t.kids.is_empty() { b.rule(t.rule, t.start, t.end) }
        else { let kids = t.kids.clone(); b.rule_with(t.rule, t.start, t.end, move |mut i| { for k in &kids { i = add(i, k); } i }) };
        match TAGS[t.tag as usize] { Some(tg) => b.tag(tg), None => b }
    }
    let mut b = PairsBuilder::new(input);
    for t in f { b = add(b, t); }
    b.build()
}
fn show(f: &[T]) -> String {
    f.iter().map(|t| { let tg = match TAGS[t.tag as usize] { Some(x) => format!("#{}", x), None => String::new() };
        if t.kids.is_empty() { format!("{:?}({},{}){}", t.rule, t.start, t.end, tg) } else { format!("{:?}({},{},[{}]){}", t.rule, t.start, t.end, show(&t.kids), tg) } }).collect::<Vec<_>>().join(",")
}
thread_local! { static KNOWN_F6: std::cell::Cell<bool> = std::cell::Cell::new(false); }
/// `{:#}` of a pair: rule(start, end) or rule(start, end, [children])
fn alt(t: &T) -> String {
    if t.kids.is_empty() { format!("{:?}({}, {})", t.rule, t.start, t.end) }
    else { format!("{:?}({}, {}, [{}])", t.rule, t.start, t.end, t.kids.iter().map(alt).collect::<Vec<_>>().join(", ")) }
}
/// `{:?}` of a pair: Pair { rule, [node_tag,] span: Span { str, range }, inner: [..] }
fn dbg(t: &T, input: &str) -> String {
    let tag = match TAGS[t.tag as usize] { Some(x) => format!("node_tag: {:?}, ", x), None => String::new() };
    format!("Pair {{ rule: {:?}, {}span: Span {{ str: {:?}, range: {}..{} }}, inner: [{}] }}", t.rule, tag, &input[t.start..t.end], t.start, t.end,
        t.kids.iter().map(|k| dbg(k, input)).collect::<Vec<_>>().join(", "))
}
/// JSON of a non-empty Pairs: {"pos": [start of the first, end of the last], "pairs": [..]}
fn json_pairs(f: &[T], input: &str) -> serde_json::Value {
    serde_json::json!({ "pos": [f[0].start, f[f.len() - 1].end], "pairs": f.iter().map(|t| json(t, input)).collect::<Vec<_>>() })
}
/// JSON of a pair: {"pos": [start, end], "rule": "r", "inner": text (leaf) | the JSON of its children}
fn json(t: &T, input: &str) -> serde_json::Value {
    let inner = if t.kids.is_empty() { serde_json::Value::String(input[t.start..t.end].to_string()) } else { json_pairs(&t.kids, input) };
    serde_json::json!({ "pos": [t.start, t.end], "rule": format!("{:?}", t.rule), "inner": inner })
}
fn flat<'a>(f: &'a [T], out: &mut Vec<&'a T>) { for t in f { out.push(t); flat(&t.kids, out); } }

fn same(p: &Pair<Rule>, t: &T, input: &str) -> Result<(), String> {
    if p.as_rule() != t.rule { return Err(format!("as_rule {:?} != {:?}", p.as_rule(), t.rule)); }
    if p.as_str() != &input[t.start..t.end] { return Err(format!("as_str {:?} != {:?}", p.as_str(), &input[t.start..t.end])); }
    let sp = p.as_span(); if (sp.start(), sp.end()) != (t.start, t.end) { return Err("as_span".into()); }
    if p.as_node_tag() != TAGS[t.tag as usize] { return Err(format!("as_node_tag {:?} != {:?}", p.as_node_tag(), TAGS[t.tag as usize])); }
    Ok(())
}
fn check_pairs(ps: Pairs<Rule>, f: &[T], input: &str, depth: usize) -> Result<(), String> {
    if ps.len() != f.len() { return Err(format!("len {} != {}", ps.len(), f.len())); }
    let want = if f.is_empty() { "" } else { &input[f[0].start..f[f.len() - 1].end] };
    if ps.as_str() != want { return Err(format!("Pairs::as_str {:?} != {:?}", ps.as_str(), want)); }
    // forward, backward and alternating walks
    for mode in 0..3 {
        let mut it = ps.clone(); let (mut lo, mut hi) = (0usize, f.len()); let mut turn = 0;
        while lo < hi {
            if it.len() != hi - lo { return Err(format!("len during walk {} != {}", it.len(), hi - lo)); }
            let front = match mode { 0 => true, 1 => false, _ => { turn += 1; turn % 2 == 1 } };
            let (p, t) = if front { let p = it.next(); lo += 1; (p, &f[lo - 1]) } else { let p = it.next_back(); hi -= 1; (p, &f[hi]) };
            let p = p.ok_or("iterator ended early")?;
            same(&p, t, input)?;
        }
        if it.len() != 0 || it.size_hint() != (0, Some(0)) || !it.is_empty() { return Err(format!("after draining (walk mode {}): len()={} size_hint={:?} is_empty={}", mode, it.len(), it.size_hint(), it.is_empty())); }
        if it.next().is_some() || it.next_back().is_some() { return Err("iterator yields after the end".into()); }
    }
    // peek, tokens, flatten
    if let Some(p) = ps.peek() { same(&p, &f[0], input)?; } else if !f.is_empty() { return Err("peek None".into()); }
    if ps.clone().tokens().count() != 2 * count(f) { return Err(format!("tokens {} != {}", ps.clone().tokens().count(), 2 * count(f))); }
    // the token stream itself: Start(rule, start) .. End(rule, end) in document order, and the same read from the back / from both ends
    {
        fn want_tokens(f: &[T], out: &mut Vec<(bool, Rule, usize)>) { for t in f { out.push((true, t.rule, t.start)); want_tokens(&t.kids, out); out.push((false, t.rule, t.end)); } }
        let key = |t: pest::Token<Rule>| match t { pest::Token::Start { rule, pos } => (true, rule, pos.pos()), pest::Token::End { rule, pos } => (false, rule, pos.pos()) };
        let mut want = vec![]; want_tokens(f, &mut want);
        let got: Vec<_> = ps.clone().tokens().map(key).collect();
        if got != want { return Err(format!("tokens() = {:?}, the tree gives {:?}", got, want)); }
        let mut gotr: Vec<_> = ps.clone().tokens().rev().map(key).collect(); gotr.reverse();
        if gotr != want { return Err(format!("tokens().rev() reversed = {:?}, the tree gives {:?}", gotr, want)); }
        let mut it = ps.clone().tokens(); let (mut lo, mut hi) = (0usize, want.len()); let mut turn = false;
        while lo < hi {
            if it.len() != hi - lo { return Err(format!("Tokens::len() = {} with {} tokens left", it.len(), hi - lo)); }
            turn = !turn;
            let (g, w) = if turn { lo += 1; (it.next(), want[lo - 1]) } else { hi -= 1; (it.next_back(), want[hi]) };
            if g.map(key) != Some(w) { return Err(format!("tokens() read from both ends: expected {:?}", w)); }
        }
        if it.next().is_some() || it.next_back().is_some() { return Err("tokens() yields after the end".into()); }
        let dbg_tokens = format!("{:?}", ps.clone().tokens());
        if !f.is_empty() && !dbg_tokens.contains("Start") { return Err(format!("Debug of Tokens {:?}", dbg_tokens)); }
    }
    let mut fl = vec![]; flat(f, &mut fl);
    let got: Vec<_> = ps.clone().flatten().collect();
    if got.len() != fl.len() { return Err("flatten count".into()); }
    for (p, t) in got.iter().zip(fl.iter()) { same(p, t, input)?; }
    let gotr: Vec<_> = ps.clone().flatten().rev().collect();
    if gotr.len() != fl.len() { return Err("flatten().rev() count".into()); }
    for (p, t) in gotr.iter().zip(fl.iter().rev()) { same(p, t, input)?; }
    // flatten in every interleaving of next / next_back (bit i of the schedule: take step i from the back)
    for sched in 0..(1u32 << fl.len().min(6)) {
        let mut it = ps.clone().flatten(); let (mut lo, mut hi) = (0usize, fl.len());
        for step in 0..fl.len() {
            if it.len() != hi - lo || it.size_hint() != (hi - lo, Some(hi - lo)) { return Err(format!("flatten(): len() = {}, size_hint() = {:?} with {} pairs left (schedule {:b}, step {})", it.len(), it.size_hint(), hi - lo, sched, step)); }
            let back = step < 6 && (sched >> step) & 1 == 1;
            let (p, t) = if back { hi -= 1; (it.next_back(), fl[hi]) } else { lo += 1; (it.next(), fl[lo - 1]) };
            let p = p.ok_or_else(|| format!("flatten(): {} returns None at step {} of schedule {:b} although {} pairs are left", if back { "next_back" } else { "next" }, step, sched, hi + 1 - lo))?;
            same(&p, t, input).map_err(|e| format!("flatten() schedule {:b} step {}: {}", sched, step, e))?;
        }
        if it.next().is_some() || it.next_back().is_some() { return Err(format!("flatten() yields after the end (schedule {:b})", sched)); }
    }
    // node tags: find_tagged is the flattened (pre-order) sequence filtered by tag, find_first_tagged its first element
    for tg in ["t", "u"] {
        let want: Vec<&&T> = fl.iter().filter(|t| TAGS[t.tag as usize] == Some(tg)).collect();
        let got: Vec<_> = ps.clone().find_tagged(tg).collect();
        if got.len() != want.len() { return Err(format!("find_tagged({:?}) yields {} pairs, the tree has {}", tg, got.len(), want.len())); }
        for (p, t) in got.iter().zip(want.iter()) { same(p, t, input).map_err(|e| format!("find_tagged({:?}): {}", tg, e))?; }
        match (ps.find_first_tagged(tg), want.first()) {
            (None, None) => {}
            (Some(p), Some(t)) => same(&p, t, input).map_err(|e| format!("find_first_tagged({:?}) is not the first tagged pair in pre-order: {}", tg, e))?,
            (g, w) => return Err(format!("find_first_tagged({:?}) is_some = {}, the tree has {} tagged pairs", tg, g.is_some(), if w.is_some() { "some" } else { "no" })),
        }
    }
    // concat: the texts of the top-level pairs, in order
    let want_cat: String = f.iter().map(|t| &input[t.start..t.end]).collect();
    if ps.concat() != want_cat { return Err(format!("concat {:?} != {:?}", ps.concat(), want_cat)); }
    if ps.get_input() != input { return Err("Pairs::get_input".into()); }
    // text views: Display, alternate Display, Debug and JSON, against renderings computed from the tree
    let want_disp = format!("[{}]", f.iter().map(|t| input[t.start..t.end].to_string()).collect::<Vec<_>>().join(", "));
    if format!("{}", ps) != want_disp { return Err(format!("Display {:?} != {:?}", format!("{}", ps), want_disp)); }
    let want_alt = format!("[{}]", f.iter().map(alt).collect::<Vec<_>>().join(", "));
    if format!("{:#}", ps) != want_alt { return Err(format!("alternate Display {:?} != {:?}", format!("{:#}", ps), want_alt)); }
    let want_dbg = format!("[{}]", f.iter().map(|t| dbg(t, input)).collect::<Vec<_>>().join(", "));
    if format!("{:?}", ps) != want_dbg { return Err(format!("Debug {:?} != {:?}", format!("{:?}", ps), want_dbg)); }
    for (p, t) in ps.clone().zip(f.iter()) {
        if format!("{}", p) != input[t.start..t.end] { return Err(format!("Pair Display {:?}", format!("{}", p))); }
        if format!("{:#}", p) != alt(t) { return Err(format!("Pair alternate Display {:?} != {:?}", format!("{:#}", p), alt(t))); }
        let got: serde_json::Value = serde_json::from_str(&p.to_json()).map_err(|e| format!("Pair::to_json is not JSON: {}", e))?;
        if got != json(t, input) { return Err(format!("Pair::to_json {} != {}", got, json(t, input))); }
    }
    if f.is_empty() && depth == 4 {
        // KNOWN (F6): Pairs::to_json indexes queue[start] / queue[end - 1] and panics on an empty top-level Pairs; reported separately
        if catch_unwind(AssertUnwindSafe(|| ps.to_json())).is_err() { KNOWN_F6.with(|c| c.set(true)); }
    } else if !f.is_empty() {
        let got: serde_json::Value = serde_json::from_str(&ps.to_json()).map_err(|e| format!("Pairs::to_json is not JSON: {}", e))?;
        let want = json_pairs(f, input);
        if got != want { return Err(format!("Pairs::to_json {} != {}", got, want)); }
    }
    // per pair: into_inner, single, tokens
    for (p, t) in ps.clone().zip(f.iter()) {
        let one = Pairs::single(p.clone());
        if one.len() != 1 { return Err(format!("single(..).len() = {}", one.len())); }
        if one.as_str() != p.as_str() { return Err(format!("single({}).as_str() = {:?}, pair.as_str() = {:?}", show(std::slice::from_ref(t)), one.as_str(), p.as_str())); }
        let mut o2 = one.clone(); let b = o2.next_back().ok_or("single next_back None")?; same(&b, t, input).map_err(|e| format!("single next_back: {}", e))?;
        if one.clone().tokens().count() != 2 * (1 + count(&t.kids)) { return Err(format!("single(..).tokens() = {}", one.clone().tokens().count())); }
        if p.clone().tokens().count() != 2 * (1 + count(&t.kids)) { return Err("pair.tokens()".into()); }
        if depth > 0 { check_pairs(p.into_inner(), &t.kids, input, depth - 1)?; }
    }
    Ok(())
}
fn run(input: &str, f: &[T]) -> Result<(), String> {
    match catch_unwind(AssertUnwindSafe(|| check_pairs(build(input, f), f, input, 4))) { Ok(r) => r, Err(_) => Err("panic".into()) }
}
fn main() {
    std::panic::set_hook(Box::new(|_| {}));
    let args: Vec<String> = std::env::args().collect();
    let input = "xéz";   // 4 bytes, boundaries 0,1,3,4
    let bds = [0usize, 1, 3, 4];
    if args.len() >= 3 && args[1] == "--replay" {
        // {"tree":"a(0,3,[b(0,1)])"} - re-enumerate and find the tree with that rendering
        let j = &args[2]; let key = "\"tree\":\""; let a = j.find(key).unwrap() + key.len(); let b = j[a..].find('"').unwrap() + a; let want = &j[a..b];
        for f0 in forests(0, 3, 3, 3) { for f in taggings(&f0) { let g = remap(&f, &bds); if show(&g) == want {
            match run(input, &g) { Ok(()) => println!("tree [{}] over {:?}: every view agrees on this tree", want, input), Err(e) => { println!("tree [{}] over {:?} FAILS: {}", want, input, e); std::process::exit(1) } }
            return; } } }
        println!("tree not found"); std::process::exit(2);
    }
    for f0 in forests(0, 3, 3, 3) { for f in taggings(&f0) {
        let g = remap(&f, &bds);
        if let Err(e) = run(input, &g) { println!("WITNESS {{\"tree\":\"{}\",\"input\":\"x\\u00e9z\",\"what\":\"{}\"}}", show(&g), e.replace('"', "'")); return; }
    } }
    if KNOWN_F6.with(|c| c.get()) { println!("KNOWN-WITNESS F6 {{\"tree\":\"\",\"what\":\"Pairs::to_json panics on an empty top-level Pairs (serialize indexes queue[start] and queue[end - 1])\"}}"); }
    println!("NO-WITNESS all forests with <= 3 nodes over the 4 boundaries of a 3-character input, with every assignment of node tags from {{none, t, u}}, agree in every view (walks, len, peek, tokens, flatten in every schedule, single, into_inner, node tags, concat, Display, alternate Display, Debug, JSON)");
}
// positions 0..3 index boundaries
fn remap(f: &[T], b: &[usize]) -> Vec<T> { f.iter().map(|t| T { rule: t.rule, start: b[t.start], end: b[t.end], kids: remap(&t.kids, b), tag: t.tag }).collect() }
/// every assignment of {none, "t", "u"} to the nodes (pre-order numbering)
fn taggings(f: &[T]) -> Vec<Vec<T>> {
    fn set(f: &mut [T], code: &mut usize) { for t in f.iter_mut() { t.tag = (*code % 3) as u8; *code /= 3; set(&mut t.kids, code); } }
    let n = count(f); let mut out = vec![];
    for m in 0..3usize.pow(n as u32) { let mut g = f.to_vec(); let mut c = m; set(&mut g, &mut c); out.push(g); }
    out
}
