//! Witness searcher for the ParserState properties (C03 combinators, C04 emission, C08, C12, C15): enumerates small programs
//! built from the public ParserState operations, runs them on the real crate and compares with a direct executable
//! reading of the documented semantics (a 60-line reference interpreter). Used only after a failed or undecided
//! deductive step, to attach a concrete failing program + input.
use pest::error::{Error, ErrorVariant, InputLocation};
use pest::iterators::Pairs;
use pest::{state, Atomicity, ParseResult, ParserState, Token};
use std::panic::{catch_unwind, AssertUnwindSafe};

#[allow(non_camel_case_types)]
#[derive(Clone, Copy, Debug, Eq, Hash, Ord, PartialEq, PartialOrd)]
enum Rule { r0, r1, r2 }
const RULES: [Rule; 3] = [Rule::r0, Rule::r1, Rule::r2];

#[derive(Clone, Debug)]
enum E {
    Str(&'static str), Seq(Box<E>, Box<E>), Alt(Box<E>, Box<E>), Opt(Box<E>), Rep(Box<E>), Pos(Box<E>), Neg(Box<E>),
    Rule(usize, Box<E>), RuleA(usize, Box<E>), RuleC(usize, Box<E>), Atomic(Box<E>), Compound(Box<E>), NonAtomic(Box<E>), Push(Box<E>), Peek, Pop, Drop, Restore(Box<E>), Skip(usize), Eoi, Range(char, char), Alpha, Insens(&'static str),
}
type S<'i> = Box<ParserState<'i, Rule>>;

fn run<'i>(e: &E, s: S<'i>) -> ParseResult<S<'i>> {
    match e {
        E::Str(t) => s.match_string(t),
        E::Seq(a, b) => s.sequence(|s| run(a, s).and_then(|s| run(b, s))),
        E::Alt(a, b) => run(a, s).or_else(|s| run(b, s)),
        E::Opt(a) => s.optional(|s| run(a, s)),
        E::Rep(a) => s.repeat(|s| run(a, s)),
        E::Pos(a) => s.lookahead(true, |s| run(a, s)),
        E::Neg(a) => s.lookahead(false, |s| run(a, s)),
        E::Rule(k, a) => s.rule(RULES[*k], |s| run(a, s)),
        E::RuleA(k, a) => s.atomic(Atomicity::Atomic, |s| s.rule(RULES[*k], |s| run(a, s))),
        E::RuleC(k, a) => s.atomic(Atomicity::CompoundAtomic, |s| s.rule(RULES[*k], |s| run(a, s))),
        E::Atomic(a) => s.atomic(Atomicity::Atomic, |s| run(a, s)),
        E::Compound(a) => s.atomic(Atomicity::CompoundAtomic, |s| run(a, s)),
        E::NonAtomic(a) => s.atomic(Atomicity::NonAtomic, |s| run(a, s)),
        E::Push(a) => s.stack_push(|s| run(a, s)),
        E::Peek => s.stack_match_peek(),
        E::Pop => s.stack_match_pop(),
        E::Drop => s.stack_drop(),
        E::Restore(a) => s.restore_on_err(|s| run(a, s)),
        E::Skip(n) => s.skip(*n),
        E::Eoi => s.end_of_input(),
        E::Range(a, b) => s.match_range(*a..*b),
        E::Alpha => s.match_char_by(|c| c.is_alphabetic()),
        E::Insens(t) => s.match_insensitive(t),
    }
}

// ---- reference interpreter: the documented semantics, written directly
#[derive(Clone, Debug, PartialEq)]
struct M { pos: usize, toks: Vec<(bool, Rule, usize)>, stack: Vec<String>, la: u8 /*0 none 1 pos 2 neg*/, atomic: bool }
fn emitting(m: &M) -> bool { m.la == 0 && !m.atomic }
/// C08: the failure record - furthest position with a reportable attempt, rules that failed there, rules that matched there under negation
#[derive(Clone, Debug, Default, PartialEq)]
struct Att { pos: usize, positives: Vec<Rule>, negatives: Vec<Rule> }
impl Att {
    fn at(&self, p: usize) -> usize { if self.pos == p { self.positives.len() + self.negatives.len() } else { 0 } }
    /// a rule tried at `p` is reported: it replaces what was tried inside it at the same position (the lists are cut back to
    /// their lengths at its entry) unless exactly one rule was tried inside it there; a further position restarts the lists
    fn report(&mut self, rule: Rule, p: usize, pi: usize, ni: usize, prev: usize, atomic: bool, negative: bool) {
        if atomic { return; }
        let curr = self.at(p);
        if curr > prev && curr - prev == 1 { return; }
        if p > self.pos { self.positives.clear(); self.negatives.clear(); self.pos = p; }
        else if p == self.pos { self.positives.truncate(pi); self.negatives.truncate(ni); }
        else { return; }
        if negative { self.negatives.push(rule) } else { self.positives.push(rule) }
    }
}
thread_local! { static ATT: std::cell::RefCell<Att> = std::cell::RefCell::new(Att::default()); }
fn refi(e: &E, input: &str, mut m: M) -> Result<M, M> {
    match e {
        E::Str(t) => if input[m.pos..].starts_with(t) { m.pos += t.len(); Ok(m) } else { Err(m) },
        E::Seq(a, b) => { let m0 = m.clone(); match refi(a, input, m).and_then(|m| refi(b, input, m)) { Ok(m) => Ok(m), Err(f) => Err(M { la: f.la, atomic: f.atomic, ..m0 }) } }
        E::Alt(a, b) => refi(a, input, m).or_else(|m| refi(b, input, m)),
        E::Opt(a) => match refi(a, input, m) { Ok(m) | Err(m) => Ok(m) },
        E::Rep(a) => { let mut cur = m; let mut fuel = 64; loop { match refi(a, input, cur) { Ok(n) => { cur = n; fuel -= 1; if fuel == 0 { return Ok(cur); } } Err(n) => return Ok(n) } } }
        E::Pos(a) | E::Neg(a) => {
            let positive = matches!(e, E::Pos(_)); let m0 = m.clone();
            m.la = match (positive, m.la) { (true, 2) => 2, (true, _) => 1, (false, 2) => 1, (false, _) => 2 };
            let r = refi(a, input, m);
            let ok = r.is_ok() == positive;
            if ok { Ok(m0) } else { Err(m0) }
        }
        E::RuleA(k, a) => refi(&E::Atomic(Box::new(E::Rule(*k, a.clone()))), input, m),
        E::RuleC(k, a) => refi(&E::Compound(Box::new(E::Rule(*k, a.clone()))), input, m),
        E::Rule(k, a) => {
            let start = m.pos; let idx = m.toks.len(); let emit = emitting(&m);
            let (pi, ni, prev) = ATT.with(|t| { let t = t.borrow(); if t.pos == start { (t.positives.len(), t.negatives.len(), t.positives.len() + t.negatives.len()) } else { (0, 0, 0) } });
            let (atomic, negative) = (m.atomic, m.la == 2);
            if emit { m.toks.push((true, RULES[*k], start)); }
            let r = refi(a, input, m);
            // reportable: a failure outside negative look-ahead, or a match under it
            if r.is_err() != negative { ATT.with(|t| t.borrow_mut().report(RULES[*k], start, pi, ni, prev, atomic, negative)); }
            match r {
                Ok(mut n) => { if emit { n.toks.push((false, RULES[*k], n.pos)); } Ok(n) }
                Err(mut n) => { if emit { n.toks.truncate(idx); } Err(n) }
            }
        }
        E::Atomic(a) | E::Compound(a) | E::NonAtomic(a) => {
            let old = m.atomic; m.atomic = matches!(e, E::Atomic(_));
            match refi(a, input, m) { Ok(mut n) => { n.atomic = old; Ok(n) } Err(mut n) => { n.atomic = old; Err(n) } }
        }
        E::Push(a) => { let start = m.pos; match refi(a, input, m) { Ok(mut n) => { n.stack.push(input[start..n.pos].to_string()); Ok(n) } Err(n) => Err(n) } }
        E::Peek => { let mut p = m.pos; for t in m.stack.iter().rev() { if input[p..].starts_with(t.as_str()) { p += t.len(); } else { return Err(m); } } m.pos = p; Ok(m) }
        E::Pop => { let mut p = m.pos; while let Some(t) = m.stack.pop() { if input[p..].starts_with(t.as_str()) { p += t.len(); } else { return Err(m); } } m.pos = p; Ok(m) }
        E::Drop => if m.stack.pop().is_some() { Ok(m) } else { Err(m) },
        E::Restore(a) => { let st = m.stack.clone(); match refi(a, input, m) { Ok(n) => Ok(n), Err(mut n) => { n.stack = st; Err(n) } } }
        E::Skip(k) => { let mut p = m.pos; let mut it = input[p..].chars(); for _ in 0..*k { match it.next() { Some(c) => p += c.len_utf8(), None => return Err(m) } } m.pos = p; Ok(m) }
        E::Eoi => if m.pos == input.len() { Ok(m) } else { Err(m) },
        E::Range(a, b) => match input[m.pos..].chars().next() { Some(c) if *a <= c && c <= *b => { m.pos += c.len_utf8(); Ok(m) } _ => Err(m) },
        E::Alpha => match input[m.pos..].chars().next() { Some(c) if c.is_alphabetic() => { m.pos += c.len_utf8(); Ok(m) } _ => Err(m) },
        E::Insens(t) => match input.get(m.pos..m.pos + t.len()) { Some(x) if x.eq_ignore_ascii_case(t) => { m.pos += t.len(); Ok(m) } _ => Err(m) },
    }
}

fn toks_of(p: Pairs<Rule>) -> Vec<(bool, Rule, usize)> {
    p.tokens().map(|t| match t { Token::Start { rule, pos } => (true, rule, pos.pos()), Token::End { rule, pos } => (false, rule, pos.pos()) }).collect()
}
#[derive(Debug, PartialEq, Clone)]
enum Out { Ok(Vec<(bool, Rule, usize)>, usize), Err(usize, Vec<Rule>, Vec<Rule>), Other(String) }
fn real(e: &E, input: &str) -> Result<Out, String> {
    let mut endpos = 0usize;
    let r = catch_unwind(AssertUnwindSafe(|| {
        let r = state::<Rule, _>(input, |s| match run(e, s) { Ok(s) => { endpos = s.position().pos(); Ok(s) } Err(s) => Err(s) });
        if let Err(err) = &r {
            // C15: with error detail on, the recorded position is a boundary of the input and the help message renders
            if let Some(a) = err.parse_attempts() {
                if !input.is_char_boundary(a.max_position) { panic!("max_position {} is not a character boundary", a.max_position); }
                let to_msg: pest::error::RuleToMessageFn<Rule> = Box::new(|r: &Rule| Some(format!("{:?}", r)));
                let is_ws: pest::error::IsWhitespaceFn = Box::new(|s: String| s == " ");
                if let Some(help) = err.parse_attempts_error(input, &to_msg, &is_ws) { let _ = format!("{}", help); }
            }
            let _ = format!("{}", err);
        }
        r
    }));
    match r {
        Err(_) => Err("panic".into()),
        Ok(Ok(p)) => Ok(Out::Ok(toks_of(p), endpos)),
        Ok(Err(Error { variant: ErrorVariant::ParsingError { positives, negatives }, location: InputLocation::Pos(p), .. })) => Ok(Out::Err(p, positives, negatives)),
        Ok(Err(e)) => Ok(Out::Other(format!("{:?}", e.variant))),
    }
}
fn wellformed(t: &[(bool, Rule, usize)], input: &str) -> Result<(), String> {
    let mut st: Vec<(Rule, usize)> = vec![]; let mut last = 0usize;
    for &(start, r, p) in t {
        if p < last { return Err(format!("positions decrease in stream order at {}", p)); }
        if !input.is_char_boundary(p) { return Err(format!("position {} is not a boundary", p)); }
        last = p;
        if start { st.push((r, p)); } else { match st.pop() { Some((rr, _)) if rr == r => {} _ => return Err("unbalanced or mismatched End token".into()) } }
    }
    if !st.is_empty() { return Err("unclosed Start token".into()); }
    Ok(())
}
fn check(e: &E, input: &str, mode: &str) -> Result<(), String> {
    pest::set_error_detail(false);
    let got = real(e, input)?;
    let init = M { pos: 0, toks: vec![], stack: vec![], la: 0, atomic: false };
    ATT.with(|t| *t.borrow_mut() = Att::default());
    let want = refi(e, input, init);
    let att = ATT.with(|t| t.borrow().clone());
    match (&got, &want) {
        (Out::Ok(t, p), Ok(m)) => {
            wellformed(t, input)?;
            if *t != m.toks { return Err(format!("tokens {:?}, direct reading gives {:?}", t, m.toks)); }
            if *p != m.pos { return Err(format!("ends at {}, direct reading gives {}", p, m.pos)); }
        }
        (Out::Err(p, pos, neg), Err(_)) => {
            // C08: furthest reportable position; sorted, duplicate-free lists of what failed / matched under negation there
            let norm = |v: &Vec<Rule>| { let mut w = v.clone(); w.sort(); w.dedup(); w };
            if *p != att.pos || *pos != norm(&att.positives) || *neg != norm(&att.negatives) {
                return Err(format!("failure report: position {} expected {:?} unexpected {:?}; direct reading gives position {} expected {:?} unexpected {:?}", p, pos, neg, att.pos, norm(&att.positives), norm(&att.negatives)));
            }
        }
        (g, w) => return Err(format!("outcome {:?}, direct reading gives {}", g, if w.is_ok() { "success" } else { "failure" })),
    }
    if mode == "C15" || mode == "all" {
        pest::set_error_detail(true);
        let got2 = real(e, input);
        pest::set_error_detail(false);
        match got2 { Err(p) => return Err(format!("with error detail on: {}", p)), Ok(g2) => if g2 != got { return Err(format!("error detail on gives {:?}, off gives {:?}", g2, got)); } }
    }
    if (mode == "C12" || mode == "all") && limit_safe(e) {
        // C12: under every call limit the parse gives the unlimited result or the limit error, and once it completes it keeps
        // completing. Programs in which optional / repeat / negative look-ahead / choice enclose a counted call are left out:
        // there the unchanged tree absorbs a refusal (known findings F4a-c).
        let mut completed = false;
        for limit in 1..=16usize {
            pest::set_call_limit(std::num::NonZeroUsize::new(limit));
            let g = real(e, input);
            pest::set_call_limit(None);
            let g = g.map_err(|p| format!("with call limit {}: {}", limit, p))?;
            let refused = matches!(&g, Out::Other(m) if m.contains("call limit reached"));
            if g == got { completed = true; }
            else if !refused { return Err(format!("call limit {} gives {:?}, no limit gives {:?}", limit, g, got)); }
            else if completed { return Err(format!("call limit {} refuses although a smaller limit completed with the unlimited result", limit)); }
        }
        if !completed { return Err("no call limit up to 16 completes".into()); }
    }
    Ok(())
}
fn is_leaf(e: &E) -> bool { matches!(e, E::Str(_) | E::Peek | E::Pop | E::Drop | E::Skip(_) | E::Eoi) }
fn limit_safe(e: &E) -> bool {
    match e {
        E::Opt(a) | E::Rep(a) | E::Neg(a) => is_leaf(a),
        E::Alt(a, b) => is_leaf(a) && limit_safe(b),
        E::Seq(a, b) => limit_safe(a) && limit_safe(b),
        E::Pos(a) | E::Rule(_, a) | E::RuleA(_, a) | E::RuleC(_, a) | E::Atomic(a) | E::Compound(a) | E::NonAtomic(a) | E::Push(a) | E::Restore(a) => limit_safe(a),
        _ => true,
    }
}

fn leaves() -> Vec<E> { vec![E::Str("a"), E::Str("b"), E::Str("é"), E::Peek, E::Pop, E::Eoi, E::Drop, E::Skip(2)] }
fn unary(k: usize, a: E) -> E {
    let b = Box::new(a);
    match k { 0 => E::Opt(b), 1 => E::Rep(b), 2 => E::Pos(b), 3 => E::Neg(b), 4 => E::Rule(0, b), 5 => E::Rule(1, b), 6 => E::RuleA(2, b), 7 => E::RuleC(1, b),
              8 => E::Atomic(b), 9 => E::NonAtomic(b), 10 => E::Push(b), _ => E::Restore(b) }
}
const NUN: usize = 12;
/// all programs with exactly `n` nodes, given the tables for smaller sizes
fn of_size(n: usize, by: &[Vec<E>]) -> Vec<E> {
    if n == 1 { return leaves(); }
    let mut out = vec![];
    for a in &by[n - 1] { for k in 0..NUN { out.push(unary(k, a.clone())); } }
    for i in 1..n - 1 { let j = n - 1 - i; for a in &by[i] { for b in &by[j] {
        out.push(E::Seq(Box::new(a.clone()), Box::new(b.clone()))); out.push(E::Alt(Box::new(a.clone()), Box::new(b.clone()))); } } }
    out
}
// ---- second stage for C08 / C15: a narrower vocabulary (two literals, ANY, two rules, negation, option, sequence, choice) up to 9 nodes
fn deep_leaves() -> Vec<E> { vec![E::Str("a"), E::Str("b"), E::Skip(1), E::Str("")] }
fn deep_unary(k: usize, a: E) -> E { let b = Box::new(a); match k { 0 => E::Rule(0, b), 1 => E::Rule(1, b), 2 => E::Neg(b), _ => E::Opt(b) } }
const DNUN: usize = 4;
fn deep_of_size(n: usize, by: &[Vec<E>]) -> Vec<E> {
    if n == 1 { return deep_leaves(); }
    let mut out = vec![];
    for a in &by[n - 1] { for k in 0..DNUN { out.push(deep_unary(k, a.clone())); } }
    for i in 1..n - 1 { let j = n - 1 - i; for a in &by[i] { for b in &by[j] {
        out.push(E::Seq(Box::new(a.clone()), Box::new(b.clone()))); out.push(E::Alt(Box::new(a.clone()), Box::new(b.clone()))); } } }
    out
}
const DEEP_TABLE: usize = 7;   // sizes 1..=7 are tabulated; 8 and 9 are generated on the fly
const DEEP_INPUTS: [&str; 7] = ["", "a", "c", "ab", "ca", "cb", "acb"];
/// visits the deep programs in a fixed order (index = position in that order); stops when `f` returns true
fn deep_visit(by: &[Vec<E>], f: &mut dyn FnMut(usize, &E) -> bool) {
    let mut i = 0usize;
    for n in 1..=DEEP_TABLE { for e in &by[n] { if f(i, e) { return; } i += 1; } }
    for n in [8usize, 9] {
        // unary over size n-1 (size 8: tabulated size 7; size 9: unary over the on-the-fly size 8 is skipped - only binary splits of tabulated sizes)
        if n - 1 <= DEEP_TABLE { for a in &by[n - 1] { for k in 0..DNUN { let e = deep_unary(k, a.clone()); if f(i, &e) { return; } i += 1; } } }
        for x in 1..n - 1 { let y = n - 1 - x; if x > DEEP_TABLE || y > DEEP_TABLE { continue; } for a in &by[x] { for b in &by[y] {
            let e = E::Seq(Box::new(a.clone()), Box::new(b.clone())); if f(i, &e) { return; } i += 1;
            let e = E::Alt(Box::new(a.clone()), Box::new(b.clone())); if f(i, &e) { return; } i += 1; } } }
        // size 9 under a rule: rule(r, <binary of size 8 splits>) - the shape `start = { (..) ~ tail }` of the detailed-error seeds
        if n == 9 { for x in 1..7 { let y = 7 - x; for a in &by[x] { for b in &by[y] { for k in 0..2 {
            let e = deep_unary(k, E::Seq(Box::new(a.clone()), Box::new(b.clone()))); if f(i, &e) { return; } i += 1; } } } } }
    }
}
fn deep_tables() -> Vec<Vec<E>> { let mut by: Vec<Vec<E>> = vec![vec![]]; for n in 1..=DEEP_TABLE { let v = deep_of_size(n, &by); by.push(v); } by }

// ---- third stage for C15: wide, not left-factored choices - many call stacks pending at one position (the preallocated
// capacity of the call-stack vector is 20): stmt = { create ~ "b" | .. (S times) | "b" | .. (K times) | other }, create = { "a" }, other = { "x" | "y" }
fn wide(shared: usize, keywords: usize) -> E {
    let mut alts: Vec<E> = vec![];
    for _ in 0..shared { alts.push(E::Seq(Box::new(E::Rule(1, Box::new(E::Str("a")))), Box::new(E::Str("b")))); }
    for _ in 0..keywords { alts.push(E::Str("b")); }
    alts.push(E::Rule(2, Box::new(E::Alt(Box::new(E::Str("x")), Box::new(E::Str("y"))))));
    let mut e = alts.pop().unwrap();
    while let Some(a) = alts.pop() { e = E::Alt(Box::new(a), Box::new(e)); }
    E::Rule(0, Box::new(e))
}
const WIDE_INPUTS: [&str; 6] = ["", "z", "a", "ab", "x", "az"];
/// fourth family (C15): one matcher on possibly multi-byte text, followed by something that does not report a token attempt
fn matcher_programs() -> Vec<E> {
    let ms = || vec![E::Str("é"), E::Str("a"), E::Insens("É"), E::Insens("A"), E::Range('a', 'ÿ'), E::Range('é', 'é'), E::Alpha, E::Skip(1)];
    let ts = || vec![E::Eoi, E::Skip(1), E::Str("z"), E::Range('0', '9'), E::Peek, E::Drop];
    let mut out = vec![];
    for m in ms() { for t in ts() {
        let sq = E::Seq(Box::new(m.clone()), Box::new(t.clone()));
        out.push(E::Rule(0, Box::new(sq.clone())));
        out.push(E::Rule(0, Box::new(E::Seq(Box::new(E::Rule(1, Box::new(m.clone()))), Box::new(t.clone())))));
        out.push(E::Rule(0, Box::new(E::Alt(Box::new(sq.clone()), Box::new(E::Str("q"))))));
        out.push(E::Rule(0, Box::new(E::Seq(Box::new(E::Rep(Box::new(m.clone()))), Box::new(t.clone())))));
        out.push(E::Rule(0, Box::new(E::Seq(Box::new(E::Neg(Box::new(t.clone()))), Box::new(E::Seq(Box::new(m.clone()), Box::new(t.clone())))))));
    } }
    out
}
const MATCHER_INPUTS: [&str; 9] = ["", "é", "éx", "é!", "a", "ax", "я", "яz", "é9"];
/// second wide family: T bare token attempts owned by an open outer rule, then a wrapper rule that starts with a rule trying
/// A failing rule alternatives at the same position (A >= 4 takes the threshold-collapse branch of try_add_new_stack_rule)
fn collapse(tokens: usize, alts: usize, wrappers: usize) -> E {
    let mut inner: Vec<E> = (0..alts.max(1)).map(|_| E::Rule(1, Box::new(E::Str("a")))).collect();
    let mut e = inner.pop().unwrap();
    while let Some(a) = inner.pop() { e = E::Alt(Box::new(a), Box::new(e)); }
    let mut e = E::Rule(2, Box::new(e));
    for _ in 0..wrappers { e = E::Rule(1, Box::new(E::Seq(Box::new(e), Box::new(E::Str("b"))))); }
    for _ in 0..tokens { e = E::Alt(Box::new(E::Str("b")), Box::new(e)); }
    E::Rule(0, Box::new(e))
}

fn nonprogress(e: &E) -> bool { // repeat over something that can succeed without consuming would not terminate
    match e { E::Rep(a) => nullable(a) || nonprogress(a), E::Seq(a, b) | E::Alt(a, b) => nonprogress(a) || nonprogress(b),
        E::Opt(a) | E::Pos(a) | E::Neg(a) | E::Rule(_, a) | E::RuleA(_, a) | E::RuleC(_, a) | E::Atomic(a) | E::Compound(a) | E::NonAtomic(a) | E::Push(a) | E::Restore(a) => nonprogress(a), _ => false }
}
fn nullable(e: &E) -> bool {
    match e { E::Str(t) => t.is_empty(), E::Seq(a, b) => nullable(a) && nullable(b), E::Alt(a, b) => nullable(a) || nullable(b), E::Opt(_) | E::Rep(_) | E::Pos(_) | E::Neg(_) | E::Peek | E::Pop | E::Drop | E::Eoi => true,
        E::Rule(_, a) | E::RuleA(_, a) | E::RuleC(_, a) | E::Atomic(a) | E::Compound(a) | E::NonAtomic(a) | E::Push(a) | E::Restore(a) => nullable(a), E::Skip(k) => *k == 0, E::Range(..) | E::Alpha => false, E::Insens(t) => t.is_empty() }
}
fn main() {
    std::panic::set_hook(Box::new(|_| {}));
    let args: Vec<String> = std::env::args().collect();
    let mode = args.iter().position(|a| a == "--search").and_then(|i| args.get(i + 1)).cloned().unwrap_or("all".into());
    // programs by number of nodes: sizes 1..=5 are tabulated (about 400k), size 6 is generated on the fly
    let mut by: Vec<Vec<E>> = vec![vec![]];
    for n in 1..=5 { let v = of_size(n, &by); by.push(v); }
    let all: Vec<E> = by.iter().flatten().cloned().collect();
    let inputs = ["", "a", "b", "é", "ab", "aa", "aé", "éa", "ba", "aab", "aba", "abé", "aéb"];
    if let Some(i) = args.iter().position(|a| a == "--replay") {
        let j = &args[i + 1];
        let get = |key: &str| { let k = format!("\"{}\":\"", key); let a = j.find(&k).unwrap() + k.len(); let b = j[a..].find('"').unwrap() + a; j[a..b].to_string() };
        let idx: usize = get("program_index").parse().unwrap(); let input = get("input");
        if j.contains("\"stage\":\"wide\"") {
            let prog = wide(get("shared").parse().unwrap(), get("keywords").parse().unwrap());
            match check(&prog, &input, "all") { Ok(()) => println!("wide choice (shared {}, keywords {}) on {:?}: agrees with the direct reading on this tree", get("shared"), get("keywords"), input), Err(e) => { println!("FAILS: wide choice (shared {}, keywords {}) on {:?}: {}", get("shared"), get("keywords"), input, e); std::process::exit(1) } }
            return;
        }
        if j.contains("\"stage\":\"matchers\"") {
            let prog = matcher_programs()[idx].clone();
            match check(&prog, &input, "all") { Ok(()) => println!("program {:?} on {:?}: agrees with the direct reading on this tree", prog, input), Err(e) => { println!("FAILS: program {:?} on {:?}: {}", prog, input, e); std::process::exit(1) } }
            return;
        }
        if j.contains("\"stage\":\"collapse\"") {
            let prog = collapse(get("tokens").parse().unwrap(), get("alts").parse().unwrap(), get("wrappers").parse().unwrap());
            match check(&prog, &input, "all") { Ok(()) => println!("collapse shape (tokens {}, alternatives {}, wrappers {}) on {:?}: agrees with the direct reading on this tree", get("tokens"), get("alts"), get("wrappers"), input), Err(e) => { println!("FAILS: collapse shape (tokens {}, alternatives {}, wrappers {}) on {:?}: {}", get("tokens"), get("alts"), get("wrappers"), input, e); std::process::exit(1) } }
            return;
        }
        if j.contains("\"stage\":\"deep\"") {
            let dby = deep_tables(); let mut prog = None;
            deep_visit(&dby, &mut |i, e| { if i == idx { prog = Some(e.clone()); true } else { false } });
            let prog = prog.expect("deep program index out of range");
            match check(&prog, &input, "all") { Ok(()) => println!("program {:?} on {:?}: agrees with the direct reading on this tree", prog, input), Err(e) => { println!("FAILS: program {:?} on {:?}: {}", prog, input, e); std::process::exit(1) } }
            return;
        }
        let prog: E = if idx < all.len() { all[idx].clone() } else {
            let mut i = all.len(); let mut got = None;
            'o: { for a in &by[5] { for k in 0..NUN { if i == idx { got = Some(unary(k, a.clone())); break 'o; } i += 1; } }
                for x in 1..5 { let y = 5 - x; for a in &by[x] { for b in &by[y] {
                    if i == idx { got = Some(E::Seq(Box::new(a.clone()), Box::new(b.clone()))); break 'o; } i += 1;
                    if i == idx { got = Some(E::Alt(Box::new(a.clone()), Box::new(b.clone()))); break 'o; } i += 1; } } } }
            got.expect("program index out of range") };
        match check(&prog, &input, "all") { Ok(()) => println!("program {:?} on {:?}: agrees with the direct reading on this tree", prog, input), Err(e) => { println!("FAILS: program {:?} on {:?}: {}", prog, input, e); std::process::exit(1) } }
        return;
    }
    let t0 = std::time::Instant::now();
    let budget = std::env::var("VX_STATE_BUDGET_S").ok().and_then(|x| x.parse().ok()).unwrap_or(150u64);
    let mut n = 0usize;
    for (idx, e) in all.iter().enumerate() {
        if nonprogress(e) { continue; }
        for input in inputs {
            n += 1;
            if let Err(w) = check(e, input, &mode) {
                println!("WITNESS {{\"program_index\":\"{}\",\"input\":\"{}\",\"program\":\"{}\",\"what\":\"{}\"}}", idx, input, format!("{:?}", e).replace('"', "'"), w.replace('"', "'"));
                return;
            }
        }
    }
    // size 6: unary over size 5, binary over (1,4),(2,3),(3,2),(4,1); indices continue after the table
    let mut idx = all.len();
    let gen6 = |f: &mut dyn FnMut(usize, &E) -> bool| {
        let mut i = all.len();
        for a in &by[5] { for k in 0..NUN { let e = unary(k, a.clone()); if f(i, &e) { return; } i += 1; } }
        for x in 1..5 { let y = 5 - x; for a in &by[x] { for b in &by[y] {
            let e = E::Seq(Box::new(a.clone()), Box::new(b.clone())); if f(i, &e) { return; } i += 1;
            let e = E::Alt(Box::new(a.clone()), Box::new(b.clone())); if f(i, &e) { return; } i += 1; } } }
    };
    let mut found = false;
    gen6(&mut |i, e| {
        idx = i;
        if t0.elapsed().as_secs() > budget { return true; }
        if nonprogress(e) { return false; }
        for input in inputs {
            n += 1;
            if let Err(w) = check(e, input, &mode) {
                println!("WITNESS {{\"program_index\":\"{}\",\"input\":\"{}\",\"program\":\"{}\",\"what\":\"{}\"}}", i, input, format!("{:?}", e).replace('"', "'"), w.replace('"', "'"));
                found = true; return true;
            }
        }
        false
    });
    if found { return; }
    let mut deep_note = String::new();
    if mode == "C08" || mode == "C15" {
        if mode == "C15" {
            for sh in 0..=36usize { for kw in 0..=26usize { let e = wide(sh, kw); for input in WIDE_INPUTS {
                if let Err(w) = check(&e, input, &mode) {
                    println!("WITNESS {{\"program_index\":\"0\",\"input\":\"{}\",\"stage\":\"wide\",\"shared\":\"{}\",\"keywords\":\"{}\",\"program\":\"stmt = create ~ b (x{}) | b (x{}) | other\",\"what\":\"{}\"}}", input, sh, kw, sh, kw, w.replace('"', "'"));
                    return;
                } } } }
        }
        if mode == "C15" || mode == "C03" {
            for (i, e) in matcher_programs().iter().enumerate() { if nonprogress(e) { continue; } for input in MATCHER_INPUTS {
                if let Err(w) = check(e, input, &mode) {
                    println!("WITNESS {{\"program_index\":\"{}\",\"input\":\"{}\",\"stage\":\"matchers\",\"program\":\"{}\",\"what\":\"{}\"}}", i, input, format!("{:?}", e).replace('"', "'"), w.replace('"', "'"));
                    return;
                } } }
        }
        if mode == "C15" {
            for tk in 0..=5usize { for al in 1..=9usize { for wr in 0..=2usize { let e = collapse(tk, al, wr); for input in WIDE_INPUTS {
                if let Err(w) = check(&e, input, &mode) {
                    println!("WITNESS {{\"program_index\":\"0\",\"input\":\"{}\",\"stage\":\"collapse\",\"tokens\":\"{}\",\"alts\":\"{}\",\"wrappers\":\"{}\",\"program\":\"r0 = b (x{}) | wrapper(x{})(r2 = r1 (x{} alternatives))\",\"what\":\"{}\"}}", input, tk, al, wr, tk, wr, al, w.replace('"', "'"));
                    return;
                } } } } }
        }
        let dby = deep_tables();
        let dbudget = std::env::var("VX_STATE_DEEP_S").ok().and_then(|x| x.parse().ok()).unwrap_or(240u64);
        let t1 = std::time::Instant::now(); let mut dn = 0usize; let mut last = 0usize;
        deep_visit(&dby, &mut |i, e| {
            last = i;
            if t1.elapsed().as_secs() > dbudget { return true; }
            for input in DEEP_INPUTS {
                dn += 1;
                if let Err(w) = check(e, input, &mode) {
                    println!("WITNESS {{\"program_index\":\"{}\",\"input\":\"{}\",\"stage\":\"deep\",\"program\":\"{}\",\"what\":\"{}\"}}", i, input, format!("{:?}", e).replace('"', "'"), w.replace('"', "'"));
                    found = true; return true;
                }
            }
            false
        });
        if found { return; }
        deep_note = format!("; second stage: {} program/input pairs over {{a, b, the empty literal, ANY, two rules, !, ?, ~, |}} up to 9 nodes (index {} within {} s){}", dn, last, dbudget, if mode == "C15" { "; third stage: wide choices with 0..=36 shared-prefix and 0..=26 keyword alternatives, and collapse shapes (0..=5 pending tokens, 1..=9 failing rule alternatives, 0..=2 wrapper rules), x 6 inputs" } else { "" });
    }
    println!("NO-WITNESS {} program/input pairs (all programs up to 5 nodes, size 6 up to index {} within {} s) agree with the direct reading{}", n, idx, budget, deep_note);
}
