//! Witness searcher for C10 (line/column arithmetic): compares every public line/column observation (positions, spans,
//! pairs built through PairsBuilder and through a parse, errors and their rendering) with direct readings of the property
//! on all short texts over a mixed alphabet. Used to attach a concrete failing text to a failed or undecided obligation,
//! and as the thorough-tier cross-check. Enumerative, on the real code: never counted as proved.
use pest::error::{Error, ErrorVariant, InputLocation, LineColLocation};
use pest::iterators::PairsBuilder;
use pest::{state, Position, Span};
use std::ops::Bound;
use std::panic::{catch_unwind, AssertUnwindSafe};

#[allow(non_camel_case_types)]
#[derive(Clone, Copy, Debug, Eq, Hash, Ord, PartialEq, PartialOrd)]
enum Rule { a, b }

const ALPHA: [&str; 6] = ["a", "\n", "\r", "é", "€", "\t"];

fn texts(maxlen: usize) -> Vec<String> {
    let mut out = vec![String::new()];
    let mut layer = vec![String::new()];
    for _ in 0..maxlen { let mut nl = vec![]; for s in &layer { for a in ALPHA { nl.push(format!("{}{}", s, a)); } } out.extend(nl.iter().cloned()); layer = nl; }
    out
}
// direct readings of the property
fn lc(s: &str, o: usize) -> (usize, usize) {
    let mut line = 1; let mut col = 1;
    for c in s[..o].chars() { if c == '\n' { line += 1; col = 1; } else { col += 1; } }
    (line, col)
}
fn ls(b: &[u8], o: usize) -> usize { let mut i = o; while i > 0 { if b[i - 1] == b'\n' { return i; } i -= 1; } 0 }
fn le(b: &[u8], o: usize) -> usize { let mut i = o; while i < b.len() { if b[i] == b'\n' { return i + 1; } i += 1; } b.len() }
/// the consecutive input lines a span [a, b] touches, as the iterator is documented: from the line containing `a`, while the line start is <= b
fn ref_lines(s: &str, a: usize, b: usize) -> Vec<(usize, usize)> {
    let mut out = vec![]; let mut p = a;
    while p <= b && p < s.len() { let (x, y) = (ls(s.as_bytes(), p), le(s.as_bytes(), p)); out.push((x, y)); p = y; }
    out
}
fn custom() -> ErrorVariant<Rule> { ErrorVariant::CustomError { message: "m".to_owned() } }

fn check_render(text: &str, what: &str, e: &Error<Rule>, l: usize, c: usize, pos_marker: bool) -> Result<(), String> {
    let r = format!("{}", e);
    let rows: Vec<&str> = r.split('\n').collect();
    if rows.len() < 6 { return Err(format!("{}: rendering of {:?} has {} rows", what, text, rows.len())); }
    if !rows[0].trim_start().starts_with(&format!("--> {}:{}", l, c)) { return Err(format!("{}: rendering shows {:?}, expected line {} column {}", what, rows[0], l, c)); }
    if !rows[2].trim_start().starts_with(&format!("{} | ", l)) { return Err(format!("{}: rendered source row {:?} does not carry line number {}", what, rows[2], l)); }
    // the gutter: the `|` bars of the frame, the source row(s) and the marker row stand in one column, and the `=` of the message row too
    // (checked on the six-row form only - position errors and single-line spans; a multi-line span shows its last line raw
    // when whitespace is being visualised, line break included, which splits that row: an upstream quirk outside the property's clauses)
    let bar = |row: &str| row.chars().position(|ch| ch == '|');
    let col = bar(rows[1]);
    for (k, row) in rows.iter().enumerate().skip(1).take(if rows.len() == 6 { 6 } else { 0 }) {
        let here = if row.trim_start().starts_with('=') { row.chars().position(|ch| ch == '=') } else { bar(row) };
        if here != col { return Err(format!("{}: the gutter is not aligned: row {} {:?} has its bar at {:?}, row 1 {:?} at {:?}", what, k, row, here, rows[1], col)); }
    }
    if pos_marker {
        let u = rows[3].splitn(2, "| ").nth(1).unwrap_or("");
        let caret = u.chars().position(|ch| ch == '^');
        if caret != Some(c - 1) { return Err(format!("{}: marker at {:?} in {:?}, reported column {}", what, caret, rows[3], c)); }
    }
    Ok(())
}

fn check_text(text: &str) -> Result<(), String> {
    let n = text.len(); let bytes = text.as_bytes();
    for p in 0..=n + 1 {
        let pos = Position::new(text, p);
        let bd = p <= n && text.is_char_boundary(p);
        if pos.is_some() != bd { return Err(format!("Position::new({:?}, {}) is_some = {}", text, p, pos.is_some())); }
        let Some(pos) = pos else { continue };
        if pos.line_col() != lc(text, p) { return Err(format!("Position::line_col at {} in {:?} = {:?}, definition gives {:?}", p, text, pos.line_col(), lc(text, p))); }
        let want = &text[ls(bytes, p)..le(bytes, p)];
        if pos.line_of() != want { return Err(format!("Position::line_of at {} in {:?} = {:?}, the line containing the offset is {:?}", p, text, pos.line_of(), want)); }
        // errors from positions
        let e = Error::new_from_pos(custom(), pos);
        if e.line_col != LineColLocation::Pos(lc(text, p)) || e.location != InputLocation::Pos(p) { return Err(format!("Error::new_from_pos at {} in {:?}: line_col {:?} location {:?}", p, text, e.line_col, e.location)); }
        let (l, c) = lc(text, p);
        check_render(text, &format!("error at offset {}", p), &e, l, c, true)?;
        // the displayed line: the line containing the offset, line terminators made visible when the error sits on one, dropped otherwise
        let on_break = text[p..].starts_with('\n') || text[p..].starts_with('\r');
        let shown = if on_break { want.replace('\r', "␍").replace('\n', "␊") } else { want.replace(&['\r', '\n'][..], "") };
        if e.line() != shown { return Err(format!("Error::new_from_pos at {} in {:?}: line() = {:?}, the line containing the offset shows as {:?}", p, text, e.line(), shown)); }
        let r = format!("{}", e); let row = r.split('\n').nth(2).unwrap_or("");
        if row != format!("{} | {}", l, shown) { return Err(format!("error at offset {} in {:?}: source row {:?}, expected {:?}", p, text, row, format!("{} | {}", l, shown))); }
    }
    for a in 0..=n + 1 { for b in 0..=n + 1 {
        let sp = Span::new(text, a, b);
        let ok = a <= b && b <= n && text.is_char_boundary(a) && text.is_char_boundary(b);
        if sp.is_some() != ok { return Err(format!("Span::new({:?}, {}, {}) is_some = {}", text, a, b, sp.is_some())); }
        let Some(sp) = sp else { continue };
        let want = ref_lines(text, a, b);
        let got: Vec<(usize, usize)> = sp.lines_span().map(|s| (s.start(), s.end())).collect();
        if got != want { return Err(format!("Span({},{}).lines_span() in {:?} = {:?}, consecutive overlapping lines are {:?}", a, b, text, got, want)); }
        let got: Vec<&str> = sp.lines().collect();
        let wants: Vec<&str> = want.iter().map(|&(x, y)| &text[x..y]).collect();
        if got != wants { return Err(format!("Span({},{}).lines() in {:?} = {:?}, expected {:?}", a, b, text, got, wants)); }
        // Span::get: a sub-span exists exactly for ordered boundary ranges inside the span, and is that part of it
        {
            let inner = &text[a..b]; let m = inner.len();
            let same = |what: String, got: Option<Span>, want: Option<&str>, x: usize| -> Result<(), String> {
                match (got, want) {
                    (None, None) => Ok(()),
                    (Some(g), Some(w)) if g.as_str() == w && g.start() == a + x && g.end() == a + x + w.len() => Ok(()),
                    (g, w) => Err(format!("Span({},{}).get({}) in {:?} = {:?}, the span's text gives {:?}", a, b, what, text, g.map(|g| (g.start(), g.end())), w)),
                }
            };
            for x in 0..=m + 1 {
                same(format!("{}..", x), sp.get(x..), inner.get(x..), x)?;
                same(format!("..{}", x), sp.get(..x), inner.get(..x), 0)?;
                same(format!("..={}", x), sp.get(..=x), inner.get(..=x), 0)?;
                for y in 0..=m + 1 {
                    same(format!("{}..{}", x, y), sp.get(x..y), inner.get(x..y), x)?;
                    same(format!("{}..={}", x, y), sp.get(x..=y), inner.get(x..=y), x)?;
                }
            }
            same("..".to_string(), sp.get(..), inner.get(..), 0)?;
            // bounds at the end of the integer range: `str::get` answers None; a span must not be built (and nothing may overflow)
            let big = usize::MAX;
            macro_rules! edge { ($what:expr, $e:expr, $w:expr, $x:expr) => {{
                let what: String = $what;
                let got = catch_unwind(AssertUnwindSafe(|| $e)).map_err(|_| format!("Span({},{}).get({}) in {:?} panics (integer overflow); str::get on the span's text answers {:?}", a, b, what, text, $w))?;
                same(what, got, $w, $x)?;
            }} }
            edge!(format!("..={}", big), sp.get(..=big), inner.get(..=big), 0);
            edge!(format!("0..={}", big), sp.get(0..=big), inner.get(0..=big), 0);
            edge!(format!("(Excluded({}), Unbounded)", big), sp.get((Bound::Excluded(big), Bound::Unbounded)), inner.get((Bound::Excluded(big), Bound::Unbounded)), 0);
            for x in 0..=m {
                edge!(format!("(Excluded({}), Unbounded)", x), sp.get((Bound::Excluded(x), Bound::Unbounded)), inner.get((Bound::Excluded(x), Bound::Unbounded)), x + 1);
            }
        }
        if sp.start_pos().line_col() != lc(text, a) || sp.end_pos().line_col() != lc(text, b) { return Err(format!("Span({},{}) start/end line_col in {:?}", a, b, text)); }
        // pairs: through the builder (index over the whole input) ...
        let pairs = PairsBuilder::new(text).rule_with(Rule::a, a, b, |i| i.rule(Rule::b, a, b)).build();
        let outer = pairs.clone().next().unwrap();
        if outer.line_col() != lc(text, a) { return Err(format!("Pair::line_col (builder) for a pair at {} in {:?} = {:?}, definition gives {:?}", a, text, outer.line_col(), lc(text, a))); }
        let inner = outer.clone().into_inner().next().unwrap();
        if inner.line_col() != lc(text, a) { return Err(format!("Pair::line_col (into_inner) for a pair at {} in {:?} = {:?}, definition gives {:?}", a, text, inner.line_col(), lc(text, a))); }
        for (k, p) in pairs.clone().flatten().enumerate() {
            if p.line_col() != lc(text, a) { return Err(format!("Pair::line_col (flatten #{}) for a pair at {} in {:?} = {:?}, definition gives {:?}", k, a, text, p.line_col(), lc(text, a))); }
        }
        // ... and through a parse (index over the consumed prefix)
        let (na, nb) = (text[..a].chars().count(), text[a..b].chars().count());
        let parsed = state::<Rule, _>(text, |s| s.skip(na).and_then(|s| s.rule(Rule::a, |s| s.skip(nb))));
        match parsed {
            Ok(mut ps) => { let p = ps.next().unwrap();
                if p.line_col() != lc(text, a) { return Err(format!("Pair::line_col (parse) for a pair at {} in {:?} = {:?}, definition gives {:?}", a, text, p.line_col(), lc(text, a))); }
                if (p.as_span().start(), p.as_span().end()) != (a, b) { return Err(format!("parsed pair span in {:?}", text)); } }
            Err(_) => return Err(format!("parse building a pair at {}..{} in {:?} failed", a, b, text)),
        }
        // errors from spans: start as defined; end as defined except that an end just after a newline points at the newline
        let e = Error::new_from_span(custom(), sp);
        let (el, ec) = lc(text, b);
        let want_end = if ec == 1 && b > 0 { let q = (0..b).rev().find(|&q| text.is_char_boundary(q)).unwrap(); let (l2, c2) = lc(text, q); (l2, c2 + 1) } else if ec == 1 { (1, 2) } else { (el, ec) };
        if e.line_col != LineColLocation::Span(lc(text, a), want_end) || e.location != InputLocation::Span((a, b)) { return Err(format!("Error::new_from_span({},{}) in {:?}: location {:?} line_col {:?}, expected Span(({}, {})) and {:?}", a, b, text, e.location, e.line_col, a, b, (lc(text, a), want_end))); }
        let (l, c) = lc(text, a);
        check_render(text, &format!("error over span {}..{}", a, b), &e, l, c, false)?;
        // the displayed start line: the first line the span touches ("" when it touches none), terminators visible when the span
        // starts or ends with one, dropped otherwise
        let first = ref_lines(text, a, b).first().map(|&(x, y)| &text[x..y]).unwrap_or("");
        let st = &text[a..b];
        let vis = matches!(st.chars().next(), Some('\n') | Some('\r')) || matches!(st.chars().last(), Some('\n') | Some('\r'));
        let shown = if vis { first.replace('\r', "␍").replace('\n', "␊") } else { first.replace(&['\r', '\n'][..], "") };
        if e.line() != shown { return Err(format!("Error::new_from_span({},{}) in {:?}: line() = {:?}, the first line of the span shows as {:?}", a, b, text, e.line(), shown)); }
    } }
    Ok(())
}
fn guarded(text: &str) -> Result<(), String> {
    match catch_unwind(AssertUnwindSafe(|| check_text(text))) { Ok(r) => r, Err(p) => {
        let m = p.downcast_ref::<String>().cloned().or_else(|| p.downcast_ref::<&str>().map(|s| s.to_string())).unwrap_or_default();
        Err(format!("panic on {:?}: {}", text, m)) } }
}
fn esc(s: &str) -> String { s.replace('\\', "\\\\").replace('\n', "\\n").replace('\r', "\\r").replace('\t', "\\t").replace('"', "'") }
fn unesc(s: &str) -> String { s.replace("\\n", "\n").replace("\\r", "\r").replace("\\t", "\t").replace("\\\\", "\\") }

fn main() {
    std::panic::set_hook(Box::new(|_| {}));
    let args: Vec<String> = std::env::args().collect();
    if args.len() >= 3 && args[1] == "--replay" {
        let j = &args[2];
        let k = "\"text\":\""; let a = j.find(k).unwrap() + k.len(); let b = j[a..].find('"').unwrap() + a;
        let text = unesc(&j[a..b]);
        match guarded(&text) { Ok(()) => println!("text {:?}: every line/column observation agrees with the definition on this tree", text), Err(e) => { println!("FAILS: {}", e); std::process::exit(1) } }
        return;
    }
    let maxlen: usize = std::env::var("VX_LINES_MAXLEN").ok().and_then(|s| s.parse().ok()).unwrap_or(5);
    let mut n = 0usize;
    for t in texts(maxlen) {
        n += 1;
        if let Err(e) = guarded(&t) { println!("WITNESS {{\"text\":\"{}\",\"what\":\"{}\"}}", esc(&t), esc(&e)); return; }
    }
    // long texts: line numbers with 1, 2, 3 and 4 digits (the gutter width follows the widest line number shown)
    for lines in [8usize, 9, 10, 11, 98, 99, 100, 101, 109, 110, 998, 999, 1000, 1001] {
        let t = format!("{}bé", "ab\n".repeat(lines));
        let r = catch_unwind(AssertUnwindSafe(|| -> Result<(), String> {
            let n = t.len();
            for p in [n, n - 2, n - 3, n - 4, n - 6, 0usize, 3] {
                if !t.is_char_boundary(p) { continue; }
                let pos = Position::new(&t, p).ok_or("Position::new")?;
                if pos.line_col() != lc(&t, p) { return Err(format!("Position::line_col at {} in a text of {} lines", p, lines + 1)); }
                let e = Error::new_from_pos(custom(), pos);
                let (l, c) = lc(&t, p);
                check_render("long text", &format!("error at offset {} of a text of {} lines", p, lines + 1), &e, l, c, true)?;
            }
            for (a, b) in [(n - 6, n), (n - 9, n - 1), (0, n), (n - 3, n - 3)] {
                if !(t.is_char_boundary(a) && t.is_char_boundary(b)) { continue; }
                let sp = Span::new(&t, a, b).ok_or("Span::new")?;
                let e = Error::new_from_span(custom(), sp);
                let (l, c) = lc(&t, a);
                check_render("long text", &format!("error over span {}..{} of a text of {} lines", a, b, lines + 1), &e, l, c, false)?;
            }
            Ok(())
        }));
        match r { Ok(Ok(())) => {}, Ok(Err(e)) => { println!("WITNESS {{\"text\":\"{}\",\"what\":\"{}\"}}", esc(&t), esc(&e)); return; }
                  Err(_) => { println!("WITNESS {{\"text\":\"{}\",\"what\":\"panic on a text of {} lines\"}}", esc(&t), lines + 1); return; } }
    }
    println!("NO-WITNESS {} texts of up to {} characters over {{a,\\n,\\r,é,€,\\t}}: positions, spans (incl. Span::get for every range shape), pairs (builder, into_inner, flatten, parse) and errors agree with the definition at every offset and offset pair; rendered errors keep their gutter aligned, also on texts of 9 .. 1002 lines", n, maxlen);
}
