//! Witness searcher for C03 (matching primitives): compares the public ParserState primitives with direct executable
//! readings of their documented contracts on small inputs. Used only to attach a concrete failing input to a failed obligation.
use pest::{state, ParserState};
use std::panic::{catch_unwind, AssertUnwindSafe};

#[allow(non_camel_case_types)]
#[derive(Clone, Copy, Debug, Eq, Hash, Ord, PartialEq, PartialOrd)]
enum Rule { r }

fn inputs(maxlen: usize) -> Vec<String> {
    let alpha = ["a", "b", "é", "<", "\n", "㩍"];   // é = C3 A9, 㩍 = E3 A9 8D: lead bytes that differ in bit 5 only, same second byte
    let mut out = vec![String::new()];
    let mut layer = vec![String::new()];
    for _ in 0..maxlen { let mut nl = vec![]; for s in &layer { for a in alpha { nl.push(format!("{}{}", s, a)); } } out.extend(nl.iter().cloned()); layer = nl; }
    out
}
/// position reached by running `f` from byte offset `start` (a boundary); None if it fails
fn run<F>(input: &str, start: usize, f: F) -> Result<(bool, usize), String>
where F: FnOnce(Box<ParserState<'_, Rule>>) -> Result<Box<ParserState<'_, Rule>>, Box<ParserState<'_, Rule>>> {
    let mut ok = false; let mut pos = 0usize;
    let r = catch_unwind(AssertUnwindSafe(|| {
        let _ = state::<Rule, _>(input, |s| {
            // advance to `start` first
            let s = s.skip(input[..start].chars().count()).unwrap_or_else(|e| e);
            let res = f(s);
            match res { Ok(s2) => { ok = true; pos = s2.position().pos(); Ok(s2) } Err(s2) => { ok = false; pos = s2.position().pos(); Err(s2) } }
        });
    }));
    if r.is_err() { return Err("panic".into()); }
    Ok((ok, pos))
}
fn ref_skip_until(input: &str, start: usize, needles: &[&str]) -> usize {
    for p in start..input.len() {
        if !input.is_char_boundary(p) { continue; }
        if needles.iter().any(|n| input[p..].as_bytes().starts_with(n.as_bytes())) { return p; }
    }
    input.len()
}
fn check(input: &str, start: usize, needles: &[&str]) -> Result<(), String> {
    let (ok, pos) = run(input, start, |s| s.skip_until(needles))?;
    let want = ref_skip_until(input, start, needles);
    if !ok || pos != want { return Err(format!("skip_until({:?}) on {:?} from {}: stops at {} (ok={}), first match is at {}", needles, input, start, pos, ok, want)); }
    for n in needles {
        let (ok, pos) = run(input, start, |s| s.match_string(n))?;
        let m = input[start..].as_bytes().starts_with(n.as_bytes());
        if ok != m || pos != (if m { start + n.len() } else { start }) { return Err(format!("match_string({:?}) on {:?} from {}: ok={} pos={}", n, input, start, ok, pos)); }
        let (ok, pos) = run(input, start, |s| s.match_insensitive(n))?;
        let mi = input.get(start..start + n.len()).map_or(false, |x| x.eq_ignore_ascii_case(n));
        if ok != mi || pos != (if mi { start + n.len() } else { start }) { return Err(format!("match_insensitive({:?}) on {:?} from {}: ok={} pos={}", n, input, start, ok, pos)); }
    }
    for (lo, hi) in [('a', 'b'), ('b', 'é'), ('a', 'a')] {
        let (ok, pos) = run(input, start, |s| s.match_range(lo..hi))?;
        let c = input[start..].chars().next();
        let m = c.map_or(false, |c| lo <= c && c <= hi);
        if ok != m || pos != (if m { start + c.unwrap().len_utf8() } else { start }) { return Err(format!("match_range({:?}..{:?}) on {:?} from {}: ok={} pos={}", lo, hi, input, start, ok, pos)); }
    }
    for k in 0..3usize {
        let (ok, pos) = run(input, start, |s| s.skip(k))?;
        let rest: Vec<char> = input[start..].chars().collect();
        let m = rest.len() >= k;
        let w = if m { start + rest[..k].iter().map(|c| c.len_utf8()).sum::<usize>() } else { start };
        if ok != m || pos != w { return Err(format!("skip({}) on {:?} from {}: ok={} pos={}", k, input, start, ok, pos)); }
    }
    Ok(())
}
fn main() {
    std::panic::set_hook(Box::new(|_| {}));
    let args: Vec<String> = std::env::args().collect();
    let pool = ["", "a", "b", "ab", "é", "<a", "<b", "ba", "aé"];
    let mut sets: Vec<Vec<&str>> = vec![vec![]];
    for a in pool { sets.push(vec![a]); for b in pool { sets.push(vec![a, b]); for c in pool { sets.push(vec![a, b, c]); } } }
    for a in pool { sets.push(vec![a, "b", "a", "é"]); }
    if args.len() >= 3 && args[1] == "--replay" {
        let j = &args[2];
        let get = |key: &str| { let k = format!("\"{}\":\"", key); let a = j.find(&k).unwrap() + k.len(); let b = j[a..].find('"').unwrap() + a; j[a..b].to_string() };
        let input = get("input").replace("\\n", "\n"); let start: usize = get("start").parse().unwrap(); let idx: usize = get("needle_set").parse().unwrap();
        match check(&input, start, &sets[idx]) { Ok(()) => println!("input {:?} from {} with needles {:?}: primitives agree with their contracts on this tree", input, start, sets[idx]), Err(e) => { println!("FAILS: {}", e); std::process::exit(1) } }
        return;
    }
    for input in inputs(4) {
        for start in 0..=input.len() {
            if !input.is_char_boundary(start) { continue; }
            for (idx, ns) in sets.iter().enumerate() {
                if let Err(e) = check(&input, start, ns) {
                    println!("WITNESS {{\"input\":\"{}\",\"start\":\"{}\",\"needle_set\":\"{}\",\"what\":\"{}\"}}", input.replace('\n', "\\n"), start, idx, e.replace('"', "'").replace('\n', "\\n"));
                    return;
                }
            }
        }
    }
    println!("NO-WITNESS all inputs up to 4 characters over {{a,b,é,<,\\n,㩍}} x {} needle sets agree with the reference readings", sets.len());
}
