//! Witness searcher for C11: enumerates operation histories against `pest::Stack`
//! and the naive model (full copy per snapshot). Used only to attach a concrete
//! failing history to a failed proof obligation.
use pest::Stack;
use std::panic::{catch_unwind, AssertUnwindSafe};

#[derive(Clone, Copy, Debug, PartialEq)]
enum Op { Push(i32), Pop, Peek, Snapshot, Clear, Restore }

const OPS: [Op; 7] = [Op::Push(0), Op::Push(1), Op::Pop, Op::Peek, Op::Snapshot, Op::Clear, Op::Restore];

fn show(h: &[Op]) -> String {
    h.iter().map(|o| match o {
        Op::Push(v) => format!("P{}", v), Op::Pop => "O".into(), Op::Peek => "K".into(),
        Op::Snapshot => "S".into(), Op::Clear => "C".into(), Op::Restore => "R".into(),
    }).collect::<Vec<_>>().join(" ")
}

fn parse(s: &str) -> Vec<Op> {
    s.split_whitespace().map(|t| match t {
        "O" => Op::Pop, "K" => Op::Peek, "S" => Op::Snapshot, "C" => Op::Clear, "R" => Op::Restore,
        p if p.starts_with('P') => Op::Push(p[1..].parse().unwrap()),
        _ => panic!("bad op {}", t),
    }).collect()
}

/// runs a history; Err(step, description) on the first disagreement or panic
fn run(h: &[Op]) -> Result<(), (usize, String)> {
    let r = catch_unwind(AssertUnwindSafe(|| {
        let mut st: Stack<i32> = Stack::new();
        let mut elems: Vec<i32> = vec![];
        let mut saved: Vec<Vec<i32>> = vec![];
        for (i, op) in h.iter().enumerate() {
            match *op {
                Op::Push(v) => { st.push(v); elems.push(v); }
                Op::Pop => { let a = st.pop(); let b = elems.pop(); if a != b { return Err((i, format!("pop returned {:?}, model {:?}", a, b))); } }
                Op::Peek => { let a = st.peek().cloned(); let b = elems.last().cloned(); if a != b { return Err((i, format!("peek returned {:?}, model {:?}", a, b))); } }
                Op::Snapshot => { st.snapshot(); saved.push(elems.clone()); }
                Op::Clear => { st.clear_snapshot(); saved.pop(); }
                Op::Restore => { st.restore(); elems = saved.pop().unwrap_or_default(); }
            }
            let got: Vec<i32> = st[0..st.len()].to_vec();
            if got != elems { return Err((i, format!("contents {:?}, model {:?}", got, elems))); }
            if st.is_empty() != elems.is_empty() { return Err((i, "is_empty disagrees".into())); }
        }
        // drain all snapshots: every saved copy must be reinstated
        while let Some(s) = saved.pop() {
            st.restore();
            let got: Vec<i32> = st[0..st.len()].to_vec();
            if got != s { return Err((h.len(), format!("final restore gives {:?}, model {:?}", got, s))); }
        }
        Ok(())
    }));
    match r { Ok(x) => x, Err(_) => Err((h.len(), "panic".into())) }
}

fn search(maxlen: usize) -> Option<(Vec<Op>, usize, String)> {
    for len in 1..=maxlen {
        let mut idx = vec![0usize; len];
        loop {
            let h: Vec<Op> = idx.iter().map(|&i| OPS[i]).collect();
            if let Err((step, what)) = run(&h) { return Some((h, step, what)); }
            let mut k = len;
            loop {
                if k == 0 { break; }
                k -= 1;
                idx[k] += 1;
                if idx[k] < OPS.len() { break; }
                idx[k] = 0;
                if k == 0 { k = usize::MAX; break; }
            }
            if k == usize::MAX { break; }
        }
    }
    None
}

fn main() {
    std::panic::set_hook(Box::new(|_| {}));
    let args: Vec<String> = std::env::args().collect();
    if args.len() >= 3 && args[1] == "--replay" {
        // argument: JSON object with "history":"P0 S O R"
        let j = &args[2];
        let key = "\"history\":\"";
        let a = j.find(key).expect("history") + key.len();
        let b = j[a..].find('"').unwrap() + a;
        let h = parse(&j[a..b]);
        match run(&h) {
            Ok(()) => { println!("history `{}` agrees with the naive model on this tree", show(&h)); }
            Err((step, what)) => { println!("history `{}` FAILS at step {}: {}", show(&h), step, what); std::process::exit(1); }
        }
        return;
    }
    let maxlen = std::env::var("VX_STACK_MAXLEN").ok().and_then(|s| s.parse().ok()).unwrap_or(9);
    match search(maxlen) {
        Some((h, step, what)) => println!("WITNESS {{\"history\":\"{}\",\"step\":{},\"what\":\"{}\"}}", show(&h), step, what.replace('"', "'")),
        None => println!("NO-WITNESS histories up to length {} over 7 operations agree with the model", maxlen),
    }
}
