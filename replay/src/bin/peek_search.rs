//! Witness searcher / enumerative stand-in for the stack-matching primitives of C03: stack_match_peek_slice (PEEK[a..b]),
//! stack_match_peek (PEEK_ALL) and stack_match_pop (POP_ALL) against a direct reading of their documented contracts,
//! on the real crate. Stacks are built with stack_push_literal, so their entries are independent of the input.
use pest::{state, MatchDir, ParserState};
use std::panic::{catch_unwind, AssertUnwindSafe};

#[allow(non_camel_case_types)]
#[derive(Clone, Copy, Debug, Eq, Hash, Ord, PartialEq, PartialOrd)]
enum Rule { r }
type S<'i> = Box<ParserState<'i, Rule>>;

const LITS: [&str; 5] = ["", "a", "b", "ab", "é"];
fn words(alpha: &[&'static str], maxlen: usize) -> Vec<Vec<&'static str>> {
    let mut out = vec![vec![]]; let mut layer: Vec<Vec<&'static str>> = vec![vec![]];
    for _ in 0..maxlen { let mut nl = vec![]; for s in &layer { for a in alpha { let mut t = s.clone(); t.push(*a); nl.push(t); } } out.extend(nl.iter().cloned()); layer = nl; }
    out
}
/// index normalisation of PEEK[a..b]: negative indices count from the top; an index beyond the depth is rejected
fn norm(i: i32, len: usize) -> Option<usize> {
    let len = len as i32;
    if i > len { None } else if i >= 0 { Some(i as usize) } else if len + i >= 0 { Some((len + i) as usize) } else { None }
}
#[derive(Debug, PartialEq)]
struct Out { ok: bool, pos: usize, depth_after: usize }
/// runs `f` at byte offset `start` with the given stack; afterwards counts the entries left by dropping them
fn run<F>(input: &str, start: usize, stack: &[&'static str], f: F) -> Result<Out, String>
where F: for<'i> FnOnce(S<'i>) -> Result<S<'i>, S<'i>> {
    let mut out = None;
    let r = catch_unwind(AssertUnwindSafe(|| {
        let _ = state::<Rule, _>(input, |s| {
            let mut s = s.skip(input[..start].chars().count()).unwrap_or_else(|e| e);
            for l in stack { s = s.stack_push_literal(*l).unwrap_or_else(|e| e); }
            let (ok, mut s) = match f(s) { Ok(s) => (true, s), Err(s) => (false, s) };
            let pos = s.position().pos();
            let mut depth = 0usize;
            loop { match s.stack_drop() { Ok(n) => { depth += 1; s = n; } Err(n) => { s = n; break; } } }
            out = Some(Out { ok, pos, depth_after: depth });
            Ok(s)
        });
    }));
    if r.is_err() { return Err("panic".into()); }
    out.ok_or("no result".into())
}
fn check(input: &str, start: usize, stack: &[&'static str], a: i32, b: Option<i32>, dir: u8) -> Result<(), String> {
    let n = stack.len();
    let md = if dir == 0 { MatchDir::BottomToTop } else { MatchDir::TopToBottom };
    let got = run(input, start, stack, |s| s.stack_match_peek_slice(a, b, md))?;
    let want = match (norm(a, n), match b { Some(e) => norm(e, n), None => Some(n) }) {
        (Some(x), Some(y)) => {
            let text: String = if y <= x { String::new() } else if dir == 0 { stack[x..y].concat() } else { stack[x..y].iter().rev().copied().collect::<Vec<_>>().concat() };
            let m = input[start..].starts_with(&text);
            Out { ok: m, pos: if m { start + text.len() } else { start }, depth_after: n }
        }
        _ => Out { ok: false, pos: start, depth_after: n },
    };
    if got != want { return Err(format!("stack_match_peek_slice({}, {:?}, {}) with stack {:?} on {:?} from {}: {:?}, direct reading gives {:?}", a, b, if dir == 0 { "BottomToTop" } else { "TopToBottom" }, stack, input, start, got, want)); }
    Ok(())
}
fn check_all(input: &str, start: usize, stack: &[&'static str]) -> Result<(), String> {
    let n = stack.len();
    let text: String = stack.iter().rev().copied().collect::<Vec<_>>().concat();
    let m = input[start..].starts_with(&text);
    let got = run(input, start, stack, |s| s.stack_match_peek())?;
    let want = Out { ok: m, pos: if m { start + text.len() } else { start }, depth_after: n };
    if got != want { return Err(format!("stack_match_peek with stack {:?} on {:?} from {}: {:?}, direct reading gives {:?}", stack, input, start, got, want)); }
    let got = run(input, start, stack, |s| s.stack_match_pop())?;
    // POP_ALL pops while matching; on a mismatch the entries popped so far (including the mismatching one) stay popped -
    // restoring them is the job of the enclosing restore_on_err / sequence (the documented contract, see parser_state.rs)
    let mut left = n; let mut p = start;
    if !m { while left > 0 { left -= 1; if input[p..].starts_with(stack[left]) { p += stack[left].len(); } else { break; } } }
    let want = Out { ok: m, pos: if m { start + text.len() } else { start }, depth_after: if m { 0 } else { left } };
    if got != want { return Err(format!("stack_match_pop with stack {:?} on {:?} from {}: {:?}, direct reading gives {:?}", stack, input, start, got, want)); }
    Ok(())
}
fn esc(s: &str) -> String { s.replace('"', "'") }
fn main() {
    std::panic::set_hook(Box::new(|_| {}));
    let args: Vec<String> = std::env::args().collect();
    let stacks = words(&LITS, 3);
    let inputs: Vec<String> = words(&["a", "b", "é"], 3).into_iter().map(|w| w.concat()).collect();
    if args.len() >= 3 && args[1] == "--replay" {
        let j = &args[2];
        let get = |key: &str| { let k = format!("\"{}\":\"", key); let a = j.find(&k).unwrap() + k.len(); let b = j[a..].find('"').unwrap() + a; j[a..b].to_string() };
        let input = get("input"); let start: usize = get("start").parse().unwrap(); let si: usize = get("stack_index").parse().unwrap();
        let mut bad = None;
        if let Err(e) = check_all(&input, start, &stacks[si]) { bad = Some(e); }
        for a in -4..=4 { for b in std::iter::once(None).chain((-4..=4).map(Some)) { for dir in 0..2 { if bad.is_none() { if let Err(e) = check(&input, start, &stacks[si], a, b, dir) { bad = Some(e); } } } } }
        match bad { None => println!("stack {:?} on {:?} from {}: the stack matchers agree with the direct reading on this tree", stacks[si], input, start), Some(e) => { println!("FAILS: {}", e); std::process::exit(1) } }
        return;
    }
    let mut n = 0usize;
    for (si, stack) in stacks.iter().enumerate() {
        for input in &inputs {
            for start in 0..=input.len() {
                if !input.is_char_boundary(start) { continue; }
                let mut r = check_all(input, start, stack);
                for a in -4..=4 { for b in std::iter::once(None).chain((-4..=4).map(Some)) { for dir in 0..2 { n += 1; if r.is_ok() { r = check(input, start, stack, a, b, dir); } } } }
                if let Err(e) = r {
                    println!("WITNESS {{\"input\":\"{}\",\"start\":\"{}\",\"stack_index\":\"{}\",\"what\":\"{}\"}}", input, start, si, esc(&e));
                    return;
                }
            }
        }
    }
    println!("NO-WITNESS {} calls: stacks of <= 3 literals over {{'', a, b, ab, é}} x inputs of <= 3 characters over {{a, b, é}} x every start offset x PEEK[a..b] index pairs in -4..=4 (and open end) x both directions, plus PEEK_ALL and POP_ALL, agree with the direct reading", n);
}
